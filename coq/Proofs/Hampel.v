(* C18: the Hampel filter model follows the median filter's state, passes inliers and replaces
   gross outliers by the window median. *)
From Coq Require Import List Arith Lia Bool Permutation QArith Qcanon Qcabs.
From Signalo Require Import Base.Machine Base.ListX Spec.C02 Model.Median Model.Hampel.
From Signalo Require Import Proofs.MedianSort Proofs.Median.
Import ListNotations.
Local Open Scope nat_scope.

(* ---------- the order on Qc ---------- *)
Lemma qcleb_iff a b : qcleb a b = true <-> (a <= b)%Qc.
Proof. unfold qcleb, Qcle. apply Qle_bool_iff. Qed.

Lemma qcltb_iff a b : qcltb a b = true <-> (a < b)%Qc.
Proof.
  unfold qcltb. rewrite negb_true_iff. split; intros H.
  - apply Qcnot_le_lt. intros C. apply qcleb_iff in C. unfold qcleb in C. congruence.
  - destruct (Qle_bool b a) eqn:E; [|reflexivity].
    exfalso. apply (Qclt_not_le _ _ H). apply qcleb_iff. exact E.
Qed.

Lemma qcltb_false_iff a b : qcltb a b = false <-> (b <= a)%Qc.
Proof.
  split; intros H.
  - apply Qcnot_lt_le. intros C. apply qcltb_iff in C. congruence.
  - destruct (qcltb a b) eqn:E; [|reflexivity].
    apply qcltb_iff in E. exfalso. exact (Qclt_not_le _ _ E H).
Qed.

Lemma qcleb_total_order : total_order qcleb.
Proof.
  split; [|split].
  - intros a b. destruct (Qclt_le_dec a b) as [H|H].
    + left. apply qcleb_iff. apply Qclt_le_weak. exact H.
    + right. apply qcleb_iff. exact H.
  - intros a b c H1 H2. apply qcleb_iff in H1, H2. apply qcleb_iff. eapply Qcle_trans; eauto.
  - intros a b H1 H2. apply qcleb_iff in H1, H2. apply Qcle_antisym; auto.
Qed.

(* ---------- order statistics of a non-empty window ---------- *)
Section Stat.
Variable T : Type.
Variable leb : T -> T -> bool.

Lemma isort_length (l : list T) : length (isort leb l) = length l.
Proof. apply Permutation_length. apply isort_perm. Qed.

Lemma window_min_in (w : list T) d : w <> [] -> In (window_min leb w d) w.
Proof.
  intros H. unfold window_min. pose proof (isort_length w) as L.
  apply (Permutation_in _ (isort_perm T leb w)).
  destruct (isort leb w) as [|a r]; [|left; reflexivity].
  destruct w; [congruence|discriminate].
Qed.

Lemma lower_median_in (w : list T) d : w <> [] -> In (lower_median leb w d) w.
Proof.
  intros H. unfold lower_median.
  apply (Permutation_in _ (isort_perm T leb w)). apply nth_In. rewrite isort_length.
  assert (0 < length w) by (destruct w; [congruence|simpl; lia]).
  apply Nat.div_lt_upper_bound; lia.
Qed.

Hypothesis tot : total_order leb.

Lemma window_min_le_median (w : list T) d : w <> [] ->
  leb (window_min leb w d) (lower_median leb w d) = true.
Proof.
  intros H. unfold window_min, lower_median.
  pose proof (ssorted_isort T leb tot w) as S. pose proof (isort_length w) as L.
  assert (K : (length w - 1) / 2 < length (isort leb w)).
  { rewrite L. assert (0 < length w) by (destruct w; [congruence|simpl; lia]).
    apply Nat.div_lt_upper_bound; lia. }
  destruct (isort leb w) as [|a r]; [simpl in K; lia|].
  cbn [hd]. destruct ((length w - 1) / 2) as [|k].
  - cbn [nth]. destruct tot as [Ht _]. destruct (Ht a a); auto.
  - cbn [nth]. destruct S as [S1 _]. apply S1. apply nth_In. simpl in K. lia.
Qed.
End Stat.

Lemma lastn_snoc_ne {A} N (h : list A) p : 0 < N -> lastn N (h ++ [p]) <> [].
Proof. intros HN E. pose proof (lastn_snoc_in N h p HN) as I. rewrite E in I. destruct I. Qed.

(* ---------- reachable states of the median filter and their accessors ---------- *)
Local Notation MF := (Median.filter qcleb).

Lemma reach_nonempty N h p : 0 < N ->
  let w := lastn N (h ++ [p]) in
  exists s, oexec MF (init N) (h ++ [p]) = Some s /\
    acc_min s = Some (Some (window_min qcleb w p)) /\
    acc_median s = Some (Some (lower_median qcleb w p)) /\
    acc_max s = Some (Some p).
Proof.
  intros HN w.
  destruct (acc_min_median Qc qcleb qcleb_total_order N HN h p) as (s0 & s1 & y & E0 & F & Amin & Amed).
  destruct (acc_max_is_newest Qc qcleb N HN h p) as (s0' & s1' & y' & E0' & F' & Amax).
  rewrite E0 in E0'. injection E0' as <-. rewrite F in F'. injection F' as <- <-.
  exists s1. split; [|auto].
  rewrite Signalo.Proofs.Median.oexec_snoc, E0, F. reflexivity.
Qed.

Lemma reach_acc N hist : 0 < N ->
  exists s a b c, oexec MF (init N) hist = Some s /\
    acc_min s = Some a /\ acc_median s = Some b /\ acc_max s = Some c.
Proof.
  intros HN. destruct hist as [|p h] using rev_ind.
  - destruct (acc_before_first Qc N HN) as (A & B & C).
    exists (init N), None, None, None. auto.
  - destruct (reach_nonempty N h p HN) as (s & E & A & B & C). eauto 10.
Qed.

(* ---------- one Hampel step ---------- *)
Definition hampel_out (thr mn med mx x : Qc) : Qc :=
  let min_dev := Qcabs (med - mn)%Qc in
  let max_dev := Qcabs (mx - med)%Qc in
  let mad := if qcltb min_dev max_dev then max_dev else min_dev in
  if qcltb (mad * mad_factor * thr)%Qc (Qcabs (x - med)%Qc) then med else x.

Lemma hampel_step_eq thr s x a b c s' y :
  acc_min s = Some a -> acc_median s = Some b -> acc_max s = Some c ->
  MF s x = Some (s', y) ->
  hampel_step thr s x =
    Some (s', hampel_out thr (match a with Some v => v | None => x end)
                             (match b with Some v => v | None => x end)
                             (match c with Some v => v | None => x end) x).
Proof.
  intros A B C F. unfold hampel_step. rewrite A, B, C. cbn [obind]. rewrite F. cbn [obind].
  reflexivity.
Qed.

Lemma hampel_oexec thr N hist : 0 < N ->
  oexec (hampel_step thr) (init N) hist = oexec MF (init N) hist.
Proof.
  intros HN. induction hist as [|x l IH] using rev_ind; [reflexivity|].
  rewrite !Signalo.Proofs.Median.oexec_snoc, IH.
  destruct (reach_acc N l HN) as (s & a & b & c & E & A & B & C).
  destruct (median_robust Qc qcleb N HN l x) as (s0 & s' & y & E0 & F & _).
  rewrite E in E0. injection E0 as <-. rewrite E.
  rewrite (hampel_step_eq thr s x a b c s' y A B C F), F. reflexivity.
Qed.

Lemma hampel_step_nonempty thr N h p x : 0 < N ->
  let w := lastn N (h ++ [p]) in
  exists s s', oexec (hampel_step thr) (init N) (h ++ [p]) = Some s /\
    oexec MF (init N) (h ++ [p] ++ [x]) = Some s' /\
    hampel_step thr s x =
      Some (s', hampel_out thr (window_min qcleb w p) (lower_median qcleb w p) p x).
Proof.
  intros HN w.
  destruct (reach_nonempty N h p HN) as (s & E & A & B & C).
  destruct (median_robust Qc qcleb N HN (h ++ [p]) x) as (s0 & s' & y & E0 & F & _).
  rewrite E in E0. injection E0 as <-.
  exists s, s'. split; [|split].
  - rewrite hampel_oexec by exact HN. exact E.
  - rewrite app_assoc, Signalo.Proofs.Median.oexec_snoc, E, F. reflexivity.
  - rewrite (hampel_step_eq thr s x _ _ _ s' y A B C F). reflexivity.
Qed.

(* ---------- arithmetic of the decision ---------- *)
Local Open Scope Qc_scope.

Lemma mad_factor_nonneg : 0 <= mad_factor.
Proof. unfold Qcle. vm_compute. discriminate. Qed.

Lemma scale_nonneg thr : 0 <= thr -> 0 <= mad_factor * thr.
Proof.
  intros H. replace 0 with (0 * thr) by ring.
  apply Qcmult_le_compat_r; [exact mad_factor_nonneg|exact H].
Qed.

Lemma hampel_out_either thr mn med mx x :
  hampel_out thr mn med mx x = x \/ hampel_out thr mn med mx x = med.
Proof. unfold hampel_out. destruct (qcltb _ (Qcabs (x - med))); auto. Qed.

Lemma hampel_out_pass thr mn med mx x : 0 <= thr -> mn <= med ->
  Qcabs (x - med) <= thr * mad_factor * (med - mn) ->
  hampel_out thr mn med mx x = x.
Proof.
  intros Ht Hm H. unfold hampel_out.
  set (mad := if qcltb (Qcabs (med - mn)) (Qcabs (mx - med)) then Qcabs (mx - med) else Qcabs (med - mn)).
  assert (Hmad : med - mn <= mad).
  { assert (P : Qcabs (med - mn) = med - mn).
    { apply Qcabs_pos. unfold Qcminus. apply -> Qcle_minus_iff. exact Hm. }
    unfold mad. destruct (qcltb (Qcabs (med - mn)) (Qcabs (mx - med))) eqn:E.
    - apply qcltb_iff in E. rewrite P in E. apply Qclt_le_weak. exact E.
    - rewrite P. apply Qcle_refl. }
  assert (Q : qcltb (mad * mad_factor * thr) (Qcabs (x - med)) = false).
  { apply qcltb_false_iff. eapply Qcle_trans; [exact H|].
    replace (thr * mad_factor * (med - mn)) with ((med - mn) * (mad_factor * thr)) by ring.
    replace (mad * mad_factor * thr) with (mad * (mad_factor * thr)) by ring.
    apply Qcmult_le_compat_r; [exact Hmad|apply scale_nonneg; exact Ht]. }
  rewrite Q. reflexivity.
Qed.

Lemma hampel_out_replace thr mn med mx x D : 0 <= thr ->
  Qcabs (mn - med) <= D -> Qcabs (mx - med) <= D ->
  thr * mad_factor * D < Qcabs (x - med) ->
  hampel_out thr mn med mx x = med.
Proof.
  intros Ht H1 H2 H. unfold hampel_out.
  set (mad := if qcltb (Qcabs (med - mn)) (Qcabs (mx - med)) then Qcabs (mx - med) else Qcabs (med - mn)).
  assert (Hmad : mad <= D).
  { unfold mad. destruct (qcltb (Qcabs (med - mn)) (Qcabs (mx - med))); [exact H2|].
    rewrite Qcabs_Qcminus. exact H1. }
  assert (Q : qcltb (mad * mad_factor * thr) (Qcabs (x - med)) = true).
  { apply qcltb_iff. eapply Qcle_lt_trans; [|exact H].
    replace (thr * mad_factor * D) with (D * (mad_factor * thr)) by ring.
    replace (mad * mad_factor * thr) with (mad * (mad_factor * thr)) by ring.
    apply Qcmult_le_compat_r; [exact Hmad|apply scale_nonneg; exact Ht]. }
  rewrite Q. reflexivity.
Qed.

Lemma hampel_out_first thr x : hampel_out thr x x x x = x.
Proof. destruct (hampel_out_either thr x x x x); auto. Qed.

(* ---------- the statements of Props/C18.v ---------- *)
Lemma hampel_first : forall N thr x, (0 < N)%nat ->
  exists s', hampel_step thr (init N) x = Some (s', x).
Proof.
  intros N thr x HN.
  destruct (acc_before_first Qc N HN) as (A & B & C).
  destruct (median_robust Qc qcleb N HN [] x) as (s0 & s' & y & E0 & F & _).
  cbn [oexec] in E0. injection E0 as <-.
  exists s'. rewrite (hampel_step_eq thr (init N) x _ _ _ s' y A B C F).
  rewrite hampel_out_first. reflexivity.
Qed.

Lemma hampel_either : forall N thr h p x, (0 < N)%nat -> 0 <= thr ->
  let w := lastn N (h ++ [p]) in let med := lower_median qcleb w p in
  exists s s' o, oexec (hampel_step thr) (init N) (h ++ [p]) = Some s /\
    hampel_step thr s x = Some (s', o) /\
    oexec (Median.filter qcleb) (init N) (h ++ [p] ++ [x]) = Some s' /\
    (o = x \/ o = med).
Proof.
  intros N thr h p x HN Ht w med.
  destruct (hampel_step_nonempty thr N h p x HN) as (s & s' & E & E' & F).
  exists s, s', (hampel_out thr (window_min qcleb w p) med p x).
  split; [exact E|]. split; [exact F|]. split; [exact E'|]. apply hampel_out_either.
Qed.

Lemma hampel_pass : forall N thr h p x, (0 < N)%nat -> 0 <= thr ->
  let w := lastn N (h ++ [p]) in let med := lower_median qcleb w p in let mn := window_min qcleb w p in
  Qcabs (x - med) <= thr * mad_factor * (med - mn) ->
  exists s s', oexec (hampel_step thr) (init N) (h ++ [p]) = Some s /\ hampel_step thr s x = Some (s', x).
Proof.
  intros N thr h p x HN Ht w med mn H.
  destruct (hampel_step_nonempty thr N h p x HN) as (s & s' & E & _ & F).
  exists s, s'. split; [exact E|]. rewrite F. f_equal. f_equal.
  apply hampel_out_pass; auto.
  apply qcleb_iff. apply window_min_le_median; [exact qcleb_total_order|].
  apply lastn_snoc_ne. exact HN.
Qed.

Lemma hampel_replace : forall N thr h p x D, (0 < N)%nat -> 0 <= thr ->
  let w := lastn N (h ++ [p]) in let med := lower_median qcleb w p in
  (forall v, In v w -> Qcabs (v - med) <= D) ->
  thr * mad_factor * D < Qcabs (x - med) ->
  exists s s', oexec (hampel_step thr) (init N) (h ++ [p]) = Some s /\ hampel_step thr s x = Some (s', med).
Proof.
  intros N thr h p x D HN Ht w med HD H.
  destruct (hampel_step_nonempty thr N h p x HN) as (s & s' & E & _ & F).
  exists s, s'. split; [exact E|]. rewrite F. f_equal. f_equal.
  apply (hampel_out_replace thr _ _ _ _ D); auto.
  - apply HD. apply window_min_in. apply lastn_snoc_ne. exact HN.
  - apply HD. apply lastn_snoc_in. exact HN.
Qed.

Lemma hampel_constant_window : forall N thr h c x, (0 < N)%nat -> 0 <= thr ->
  Forall (fun v => v = c) (lastn N (h ++ [c])) -> x <> c ->
  exists s s', oexec (hampel_step thr) (init N) (h ++ [c]) = Some s /\ hampel_step thr s x = Some (s', c).
Proof.
  intros N thr h c x HN Ht Hc Hx.
  rewrite Forall_forall in Hc.
  assert (Em : lower_median qcleb (lastn N (h ++ [c])) c = c).
  { apply Hc. apply lower_median_in. apply lastn_snoc_ne. exact HN. }
  pose proof (hampel_replace N thr h c x 0 HN Ht) as R. cbv zeta in R. rewrite Em in R.
  apply R.
  - intros v Hv. rewrite (Hc v Hv). replace (c - c) with 0 by ring.
    rewrite (Qcabs_pos 0 (Qcle_refl 0)). apply Qcle_refl.
  - replace (thr * mad_factor * 0) with 0 by ring.
    destruct (Qcle_lt_or_eq _ _ (Qcabs_nonneg (x - c))) as [L|L]; [exact L|].
    exfalso. apply Hx. symmetry in L. apply Qcabs_null in L.
    replace x with ((x - c) + c) by ring. rewrite L. ring.
Qed.
