(* C10, not needed by Props/C10.v: the denotation of EVERY run-time state by list functions
   (DESIGN.md Appendix A.3, adapted to the current model), the well-formedness invariant under which
   it is right, and the one-step lemma [pull_denote] of DESIGN.md section C10. *)
From Coq Require Import ZArith List Bool Lia Arith.
From Signalo Require Import Model.Sources Spec.C10 Proofs.Sources.
Import ListNotations.
Local Open Scope nat_scope.

Fixpoint denote (s : src) (n : nat) : list Z :=
  match s with
  | FromList l => firstn n l
  | Chain f b false => let d := denote f n in d ++ denote b (n - length d)
  | Chain f b true => denote b n
  | Take i c => denote i (Nat.min n c)
  | Skip i c => skipn c (denote i (c + n))
  | Cycle o cur =>
      let d := denote cur n in
      let m := n - length d in
      d ++ (let D := denote o m in if length D <? m then firstn m (concat (repeat D m)) else D)
  | Constant v => repeat v n
  | Repeat v c => repeat v (Nat.min n c)
  | Increment a d => map (fun i => (a + Z.of_nat i * d)%Z) (seq 0 n)
  | PadConst i v f b CFront =>
      let d := denote i n in firstn n (repeat v f ++ d ++ (if length d <? n then repeat v b else []))
  | PadConst i v f b CInner =>
      let d := denote i n in firstn n (d ++ (if length d <? n then repeat v b else []))
  | PadConst i v f b CBack => repeat v (Nat.min n b)
  | PadEdge i c Before =>
      let d := denote i n in
      match d with
      | [] => []
      | x :: _ => firstn n (repeat x c ++ d ++ (if length d <? n then repeat (last d x) c else []))
      end
  | PadEdge i c (Front fi r) =>
      let d := denote i n in
      firstn n (repeat fi r ++ d ++ (if length d <? n then repeat (last d fi) c else []))
  | PadEdge i c (Inner la) =>
      let d := denote i n in firstn n (d ++ (if length d <? n then repeat (last d la) c else []))
  | PadEdge i c (Back la r) => repeat la (Nat.min n r)
  | PadEdge i c After => []
  | Peek i None => denote i n
  | Peek i (Some None) => []
  | Peek i (Some (Some v)) => firstn n (v :: denote i n)
  | Cache i _ => denote i n
  | RoundTrip i => denote i n
  end.

(* every sub-state is fused; a buffered end marker in Peek means the inner source has ended *)
Fixpoint WFs (s : src) : Prop :=
  Good s /\
  match s with
  | Chain f b _ => WFs f /\ WFs b
  | Cycle o c => WFs o /\ WFs c
  | Take i _ | Skip i _ | Cache i _ | RoundTrip i | PadConst i _ _ _ _ | PadEdge i _ _ => WFs i
  | Peek i pk => WFs i /\ (pk = Some None -> fst (next i) = None)
  | FromList _ | Constant _ | Repeat _ _ | Increment _ _ => True
  end.

Lemma WFs_Good : forall s, WFs s -> Good s.
Proof. destruct s; simpl; tauto. Qed.

Lemma WFs_init : forall e, WFs (init e).
Proof.
  induction e; cbn [init WFs]; repeat split; auto; try discriminate;
    try (apply (init_Good (EChain e1 e2))); try (apply (init_Good (ETake e n)));
    try (apply (init_Good (ESkip e n))); try (apply (init_Good (ECycle e)));
    try (apply (init_Good (EPadConst e v c))); try (apply (init_Good (EPadEdge e c)));
    try (apply (init_Good (EPeek e))); try (apply (init_Good (ECache e)));
    try (apply (init_Good (ERoundTrip e))).
  - apply Good_FromList.
  - apply Good_Constant.
  - apply Good_Repeat.
  - apply Good_Increment.
Qed.

Lemma items_Peek_some : forall n i v, items (Peek i (Some (Some v))) n = firstn n (v :: items i n).
Proof.
  intros [|n] i v; auto. rewrite items_S, next_Peek_some. cbn [firstn]. f_equal.
  rewrite items_Peek. apply items_prefix_le. lia.
Qed.

Theorem denote_items : forall s, WFs s -> forall n, denote s n = items s n.
Proof.
  induction s as [l|f IHf b IHb fl|i IH c|i IH c|o IHo c IHc| v|v c|st d|i IH v f b ph|i IH c ph
                 |i IH pk|i IH ch|i IH]; intros W n; cbn [WFs] in W; cbn [denote].
  - symmetry; apply items_FromList.
  - destruct W as (_ & Wf & Wb). destruct fl.
    + rewrite items_Chain_back; auto.
    + rewrite items_Chain, IHf, IHb; auto.
  - destruct W as (_ & W). rewrite items_Take; auto.
  - destruct W as (_ & W). rewrite items_Skip, IH; auto using WFs_Good.
  - destruct W as (_ & Wo & Wc). rewrite items_Cycle_split, items_Cycle, IHc, IHo; auto.
  - symmetry; apply items_Constant.
  - symmetry; apply items_Repeat.
  - symmetry; apply items_Increment.
  - destruct W as (_ & W). destruct ph.
    + rewrite items_PadConst_front, IH; auto.
    + rewrite items_PadConst_inner, IH; auto.
    + rewrite items_PadConst_back; auto.
  - destruct W as (_ & W). destruct ph as [|fi r|la|la r|].
    + rewrite items_PadEdge_before, IH; auto.
    + rewrite items_PadEdge_front, IH; auto.
    + rewrite items_PadEdge_inner, IH; auto.
    + rewrite items_PadEdge_back; auto.
    + rewrite items_PadEdge_after; auto.
  - destruct W as (_ & W & Hpk). destruct pk as [[x|]|].
    + rewrite items_Peek_some, IH; auto.
    + symmetry. apply items_none. rewrite next_Peek_some. reflexivity.
    + rewrite items_Peek; auto.
  - destruct W as (_ & W). rewrite items_Cache; auto.
  - destruct W as (_ & W). rewrite items_RoundTrip; auto.
Qed.

Corollary denote_init : forall e n, denote (init e) n = sem e n.
Proof. intros. rewrite denote_items by apply WFs_init. apply init_items. Qed.

(* ---- the invariant is preserved by a pull ---- *)
Lemma WFs_next_aux : forall h s, need s <= h -> WFs s -> WFs (snd (next s)).
Proof.
  induction h as [|h IHh]; intros s Hn W.
  { pose proof (need_pos s); lia. }
  assert (G' : Good (snd (next s))) by (apply Good_next, WFs_Good, W).
  assert (IHc : forall x, need x <= h -> WFs x -> forall o x', next x = (o, x') -> WFs x').
  { intros x Hx Wx o x' E. specialize (IHh x Hx Wx). rewrite E in IHh. exact IHh. }
  assert (Nn : forall x o x', next x = (o, x') -> need x' <= need x).
  { intros x o x' E. pose proof (need_next x) as H. rewrite E in H. exact H. }
  Ltac ih := match goal with IHc : forall x, need x <= _ -> _ |- _ =>
    eapply IHc; [ | | eassumption]; [simpl in *; lia | assumption] end.
  destruct s as [l|f b fl|i c|i c|o c| v|v c|st d|i v f b ph|i c ph|i pk|i ch|i];
    cbn [WFs need] in W, Hn.
  - destruct l; [rewrite next_FromList_nil in * | rewrite next_FromList_cons in *]; simpl in *; auto.
  - destruct W as (_ & Wf & Wb). destruct fl.
    + rewrite next_Chain_back in *. destruct (next b) as [o b'] eqn:Eb. cbn [snd WFs] in *.
      repeat split; auto. ih.
    + rewrite next_Chain_front in *. destruct (next f) as [[x|] f'] eqn:Ef.
      * cbn [snd WFs] in *. repeat split; auto. ih.
      * destruct (next b) as [o b'] eqn:Eb. cbn [snd WFs] in *.
        repeat split; auto; ih.
  - destruct W as (_ & W). destruct c; [rewrite next_Take_0 in * | rewrite next_Take_S in *].
    + cbn [snd WFs] in *. auto.
    + destruct (next i) as [o i'] eqn:E. cbn [snd WFs] in *. split; auto. ih.
  - destruct W as (_ & W). rewrite next_Skip in *.
    assert (L : forall c i, need i <= h -> WFs i -> need (skiploop c i) <= h /\ WFs (skiploop c i)).
    { induction c0; cbn [skiploop]; intros j Hj Wj; auto.
      destruct (next j) as [[x|] j'] eqn:E.
      - apply IHc0; [apply Nn in E; lia | eapply IHc; eauto].
      - split; [apply Nn in E; lia | eapply IHc; eauto]. }
    destruct (L c i) as (Hs & Ws); [lia | auto |].
    destruct (next (skiploop c i)) as [o i2] eqn:E. cbn [snd WFs] in *. split; auto.
    eapply IHc; eauto.
  - destruct W as (_ & Wo & Wc). rewrite next_Cycle in *.
    destruct (next c) as [[x|] c'] eqn:Ec.
    + cbn [snd WFs] in *. repeat split; auto. ih.
    + destruct (next o) as [o2 c2] eqn:Eo. cbn [snd WFs] in *.
      repeat split; auto. ih.
  - rewrite next_Constant in *. simpl in *; auto.
  - destruct c; [rewrite next_Repeat_0 in * | rewrite next_Repeat_S in *]; simpl in *; auto.
  - rewrite next_Increment in *. simpl in *; auto.
  - destruct W as (_ & W). destruct ph.
    + destruct f; [rewrite next_PadConst_front_0 in * | rewrite next_PadConst_front_S in *].
      * apply IHh; [simpl in *; lia|]. cbn [WFs]. split; auto. apply Good_PadConst, WFs_Good, W.
      * cbn [snd WFs] in *. auto.
    + rewrite next_PadConst_inner in *. destruct (next i) as [[x|] i'] eqn:E.
      * cbn [snd WFs] in *. split; auto. ih.
      * assert (Wi' : WFs i') by (ih).
        apply IHh; [apply Nn in E; simpl in *; lia|]. cbn [WFs]. split; auto.
        apply Good_PadConst, WFs_Good, Wi'.
    + destruct b; [rewrite next_PadConst_back_0 in * | rewrite next_PadConst_back_S in *];
        cbn [snd WFs] in *; auto.
  - destruct W as (_ & W).
    destruct ph as [|fi [|r]|la|la [|r]|].
    + rewrite next_PadEdge_before in *. destruct (next i) as [[x|] i'] eqn:E; cbn [snd WFs] in *;
        (split; auto; ih).
    + rewrite next_PadEdge_front_0 in *. destruct (next i) as [[x|] i'] eqn:E; [|destruct c];
        cbn [snd WFs] in *; (split; auto; ih).
    + rewrite next_PadEdge_front_S in *. cbn [snd WFs] in *; auto.
    + rewrite next_PadEdge_inner in *. destruct (next i) as [[x|] i'] eqn:E; [|destruct c];
        cbn [snd WFs] in *; (split; auto; ih).
    + rewrite next_PadEdge_back_0 in *. cbn [snd WFs] in *; auto.
    + rewrite next_PadEdge_back_S in *. cbn [snd WFs] in *; auto.
    + rewrite next_PadEdge_after in *. cbn [snd WFs] in *; auto.
  - destruct W as (_ & W & Hpk). destruct pk as [o|].
    + rewrite next_Peek_some in *. cbn [snd WFs] in *. repeat split; auto. discriminate.
    + rewrite next_Peek_none in *. destruct (next i) as [o i'] eqn:E. cbn [snd WFs] in *.
      repeat split; auto; [ih | discriminate].
  - destruct W as (_ & W). rewrite next_Cache in *.
    destruct (next i) as [o i'] eqn:E. cbn [snd WFs] in *. split; auto. ih.
  - destruct W as (_ & W). rewrite next_RoundTrip in *.
    destruct (next i) as [o i'] eqn:E. cbn [snd WFs] in *. split; auto. ih.
Qed.

Theorem WFs_next : forall s, WFs s -> WFs (snd (next s)).
Proof. intros s. apply (WFs_next_aux (need s)). auto. Qed.

(* ---- the one-step lemma of DESIGN.md (C10), in terms of the model's own [pull] ---- *)
Theorem pull_denote : forall s fuel o s', WFs s -> height s <= fuel ->
  pull false fuel s = Some (o, s') ->
  WFs s' /\
  match o with
  | Some v => forall n, denote s (S n) = v :: denote s' n
  | None => forall n, denote s n = [] /\ denote s' n = []
  end.
Proof.
  intros s fuel o s' W Hf Hp. rewrite pull_never_out_of_fuel in Hp by auto.
  injection Hp as Hp. pose proof (WFs_next s W) as W'. rewrite Hp in W'. cbn [snd] in W'.
  split; auto. destruct o as [v|]; intros n.
  - rewrite !denote_items by auto. rewrite items_S, Hp. reflexivity.
  - rewrite !denote_items by auto. split; apply items_none.
    + rewrite Hp; reflexivity.
    + pose proof (Good_none s (WFs_Good s W)) as H. rewrite Hp in H. apply H. reflexivity.
Qed.

Theorem pull_total_at_height : forall s fuel, height s <= fuel -> pull false fuel s <> None.
Proof. intros s fuel H. rewrite pull_never_out_of_fuel by auto. discriminate. Qed.

Print Assumptions denote_init.
Print Assumptions pull_denote.
Print Assumptions pull_total_at_height.
