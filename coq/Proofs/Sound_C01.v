(* C01 — "no false alarm": the checker of Check/C01.v can never raise the spec alarm (bit 2) on a recorded run
   that agrees with the tree model (bit 1 clear): for every pipe, mode and input the tree run and the flat run
   produce the same outputs, the same call log, the same stage states, and the same final value
   (C01_filter_flat, C01_source_flat, C01_sink_flat, C01_finalize_flat), so the two booleans coincide. *)
From Coq Require Import ZArith List Bool Lia Arith.
From Signalo Require Import Base.Report Model.Pipes Proofs.Pipes Check.Common Check.C01.
Import ListNotations.

Lemma mkv_sound m s nt : (m = true -> s = true) -> N.land (code (mkv m s nt)) 3 <> 2%N.
Proof. destruct m, s; intros H; try (specialize (H eq_refl); discriminate H); vm_compute; discriminate. Qed.

(* relabelling a tree with a stage list of the right length gives a tree with exactly these stages *)
Lemma leaves_relabel {Id S} (p : Pipes.pipe Id S) : forall a, length a = length (leaves Id S p) ->
  leaves Id S (fst (relabel Id S p a)) = a.
Proof.
  induction p as [i s|q IH|l IHl r IHr]; intros a L; cbn [leaves] in L.
  - destruct a as [|[j t] [|? ?]]; try discriminate L. reflexivity.
  - rewrite relabel_unit. cbn [leaves]. apply IH, L.
  - rewrite app_length in L.
    rewrite <- (firstn_skipn (length (leaves Id S l)) a).
    assert (L1 : length (firstn (length (leaves Id S l)) a) = length (leaves Id S l)) by (rewrite firstn_length; lia).
    assert (L2 : length (skipn (length (leaves Id S l)) a) = length (leaves Id S r)) by (rewrite skipn_length; lia).
    rewrite relabel_pipe by exact L1. cbn [leaves]. rewrite IHl, IHr by assumption. reflexivity.
Qed.

Notation pfilter := (Pipes.pfilter Id St Z Wd fstep).
Notation psource := (Pipes.psource Id St Z Wd fstep sstep).
Notation psink := (Pipes.psink Id St Z Wd fstep kstep).
Notation chain := (Pipes.chain Id St Z Wd fstep).
Notation leaves := (Pipes.leaves Id St).
Notation relabel := (Pipes.relabel Id St).

Lemma chain_len w ls x w' ls' y : chain w ls x = (w', ls', y) -> length ls' = length ls.
Proof. intros E. pose proof (chain_length Id St Z Wd fstep w ls x) as H. rewrite E in H. exact H. Qed.

(* the tree run and the flat run coincide *)
Lemma run_sim mode xs : forall w (p : pipe),
  run_flat mode w (leaves p) xs =
  let '(w1, p1, ys) := run_tree mode w p xs in (w1, leaves p1, ys).
Proof.
  induction xs as [|x xs IH]; intros w p; [reflexivity|].
  destruct mode as [|[|m]]; cbn [run_tree run_flat].
  - pose proof (pfilter_flat Id St Z Wd fstep w p x) as H.
    destruct (pfilter w p x) as [[w1 p1] y]. destruct H as [H _]. rewrite H, IH.
    destruct (run_tree 0 w1 p1 xs) as [[w2 p2] ys]. reflexivity.
  - pose proof (psource_flat Id St Z Wd fstep sstep w p) as H.
    destruct (leaves p) as [|[i s] rest] eqn:El; [exfalso; exact (leaves_nonempty Id St p El)|].
    destruct (sstep i w s) as [[w1 s'] [v|]].
    + destruct (chain w1 rest v) as [[w2 rest'] z] eqn:Ec. rewrite H.
      assert (L : leaves (fst (relabel p ((i, s') :: rest'))) = (i, s') :: rest').
      { apply leaves_relabel. rewrite El. cbn [length]. f_equal. eapply chain_len; eauto. }
      set (q := fst (relabel p ((i, s') :: rest'))) in *. rewrite <- L, IH.
      destruct (run_tree 1 w2 q xs) as [[w3 p3] ys]. reflexivity.
    + rewrite H.
      assert (L : leaves (fst (relabel p ((i, s') :: rest))) = (i, s') :: rest).
      { apply leaves_relabel. rewrite El. reflexivity. }
      set (q := fst (relabel p ((i, s') :: rest))) in *. rewrite <- L, IH.
      destruct (run_tree 1 w1 q xs) as [[w3 p3] ys]. reflexivity.
  - destruct (psink_flat Id St Z Wd fstep kstep w p x) as (front & i & s & El & H).
    rewrite El, removelast_last, last_last.
    destruct (chain w front x) as [[w1 front'] y] eqn:Ec. destruct (kstep i w1 s y) as [w2 s'].
    rewrite H.
    assert (L : leaves (fst (relabel p (front' ++ [(i, s')]))) = front' ++ [(i, s')]).
    { apply leaves_relabel. rewrite El, !app_length. cbn [length]. f_equal. eapply chain_len; eauto. }
    set (q := fst (relabel p (front' ++ [(i, s')]))) in *. rewrite <- L, IH.
    destruct (run_tree (S (S m)) w2 q xs) as [[w3 p3] ys]. reflexivity.
Qed.

Lemma finalize_last (p : pipe) d : snd (last (leaves p) d) = pfinalize Id St (list Z) fin p.
Proof.
  destruct (pfinalize_flat Id St (list Z) fin p) as (front & i & s & E & H).
  rewrite E, last_last, H. reflexivity.
Qed.

(* ---------- the checker: the two booleans are the same ---------- *)
Theorem C01_check_sound : forall c : case, N.land (code (check c)) 3 <> 2%N.
Proof.
  intros c. unfold check. rewrite run_sim.
  destruct (run_tree (cmode c) [] (cpipe c) (cxs c)) as [[w p] ys].
  rewrite finalize_last. apply mkv_sound. intros H. exact H.
Qed.
Print Assumptions C01_check_sound.
