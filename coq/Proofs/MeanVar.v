(* C16 -- proofs about the mean-variance filters (Model/MeanVar.v).
   Both filters are two copies of a mean filter: the first is fed the samples, the second the
   values  sq = |x - mean_old| * |x - mean_new|.  Everything below goes through that factorisation. *)
From Signalo Require Import Model.MeanVar Base.Lincomb Proofs.Mean Proofs.ExpSmooth.
From Coq Require Import Morphisms.

Notation mstep N := (Mean.step rdiv N false).

(* ---------------------------------------------------------------- generic helpers *)
Lemma run_Forall_last {St X Y} (step : St -> X -> St * Y) (P : Y -> Prop) s xs :
  (forall hist x rest, xs = hist ++ x :: rest -> P (last_out step s hist x)) ->
  Forall P (run step s xs).
Proof.
  induction xs as [|x xs IH] using rev_ind; intros H; [constructor|].
  rewrite run_snoc. apply Forall_app; split.
  - apply IH. intros hist y rest E. apply (H hist y (rest ++ [x])).
    rewrite E, <- app_assoc. reflexivity.
  - constructor; [|constructor]. apply (H xs x []). reflexivity.
Qed.

Lemma Forall_lastn {A} (P : A -> Prop) n l : Forall P l -> Forall P (lastn n l).
Proof.
  intros H. unfold lastn. rewrite <- (firstn_skipn (length l - n) l) in H.
  apply Forall_app in H. tauto.
Qed.

Lemma lastn_map {A B} (f : A -> B) n l : lastn n (map f l) = map f (lastn n l).
Proof. unfold lastn. rewrite map_length, skipn_map. reflexivity. Qed.

Lemma Forall2_skipn {A B} (R : A -> B -> Prop) k : forall l l',
  Forall2 R l l' -> Forall2 R (skipn k l) (skipn k l').
Proof.
  induction k as [|k IH]; intros l l' H; [exact H|].
  destruct H; cbn [skipn]; [constructor | apply IH; assumption].
Qed.

Lemma Forall2_len {A B} (R : A -> B -> Prop) l l' : Forall2 R l l' -> length l = length l'.
Proof. induction 1; cbn [length]; congruence. Qed.

Lemma Forall_prefix_snoc {A} (P : A -> Prop) hist x rest :
  Forall P (hist ++ x :: rest) -> Forall P (hist ++ [x]).
Proof.
  intros H. apply Forall_app in H. destruct H as [H1 H2]. inversion H2; subst.
  apply Forall_app; split; [assumption | constructor; [assumption | constructor]].
Qed.

Lemma qsum_nonneg l : Forall (fun x => 0 <= x) l -> 0 <= qsum l.
Proof.
  induction 1 as [|x l Hx _ IH]; cbn [qsum]; [apply Qle_refl|].
  setoid_replace 0 with (0 + 0) by ring. apply Qplus_le_compat; assumption.
Qed.
Lemma qsum_zero l : Forall (fun x => x == 0) l -> qsum l == 0.
Proof. induction 1 as [|x l Hx _ IH]; cbn [qsum]; [reflexivity|]. rewrite Hx, IH. ring. Qed.
Lemma qsum_Forall2 l l' : Forall2 Qeq l l' -> qsum l == qsum l'.
Proof. induction 1 as [|x y l l' Hx _ IH]; cbn [qsum]; [reflexivity|]. rewrite Hx, IH. reflexivity. Qed.
Lemma qsum_map_shift c l : qsum (map (fun x => x + c) l) == qsum l + qnat (length l) * c.
Proof.
  induction l as [|a l IH]; cbn [map qsum length]; [unfold qnat; simpl; ring|].
  rewrite IH, qnat_S. ring.
Qed.

Lemma Forall2_of_zero a b : length a = length b ->
  Forall (fun x => x == 0) a -> Forall (fun x => x == 0) b -> Forall2 Qeq a b.
Proof.
  revert b; induction a as [|x a IH]; intros [|y b] L Ha Hb; try discriminate; [constructor|].
  inversion Ha; inversion Hb; subst. constructor.
  - etransitivity; [eassumption | symmetry; assumption].
  - apply IH; auto.
Qed.

Lemma qnat_neq0 n : (0 < n)%nat -> ~ qnat n == 0.
Proof. intros H E. apply qnat_pos in H. rewrite E in H. apply (Qlt_irrefl 0), H. Qed.

(* ---------------------------------------------------------------- the deviation product *)
Definition sqv (x mo mn : Q) : Q := rmul (rabs (rsub x mo)) (rabs (rsub x mn)).
Definition oget (o : option Q) (x : Q) : Q := match o with Some m => m | None => x end.

Global Instance sqv_proper : Proper (Qeq ==> Qeq ==> Qeq ==> Qeq) sqv.
Proof. intros x x' Hx a a' Ha b b' Hb. unfold sqv. rewrite Hx, Ha, Hb. reflexivity. Qed.

Lemma sqv_nonneg x a b : 0 <= sqv x a b.
Proof. unfold sqv. rok. apply Qmult_le_0_compat; apply Qabs_nonneg. Qed.

Lemma sqv_offset c x a b : sqv (x + c) (a + c) (b + c) == sqv x a b.
Proof.
  unfold sqv. rok.
  setoid_replace (x + c - (a + c)) with (x - a) by ring.
  setoid_replace (x + c - (b + c)) with (x - b) by ring. reflexivity.
Qed.

Lemma Qabs_zero_eq y : y == 0 -> Qabs y == 0.
Proof. intros E. rewrite E. reflexivity. Qed.

Lemma sqv_zero_r x a b : b == x -> sqv x a b == 0.
Proof.
  intros E. unfold sqv. rok. rewrite (Qabs_zero_eq (x - b)) by (rewrite E; ring). ring.
Qed.
Lemma sqv_zero_l x a b : a == x -> sqv x a b == 0.
Proof.
  intros E. unfold sqv. rok. rewrite (Qabs_zero_eq (x - a)) by (rewrite E; ring). ring.
Qed.

(* ================================================================ sliding window *)
Definition mvw_sq (N : nat) (s : mvst) (x : Q) : Q :=
  sqv x (oget (Mean.mean (mv_mean s)) x) (snd (mstep N (mv_mean s) x)).

Lemma mvw_step_eq N s x : mvw_step N s x =
  ({| mv_mean := fst (mstep N (mv_mean s) x); mv_var := fst (mstep N (mv_var s) (mvw_sq N s x)) |},
   (snd (mstep N (mv_mean s) x), snd (mstep N (mv_var s) (mvw_sq N s x)))).
Proof.
  unfold mvw_step, mvw_sq, sqv, oget.
  destruct (mstep N (mv_mean s) x) as [sm m]. cbn [fst snd].
  destruct (mstep N (mv_var s) _) as [sv v]. reflexivity.
Qed.

Fixpoint mvw_sqs (N : nat) (s : mvst) (xs : list Q) : list Q :=
  match xs with [] => [] | x :: r => mvw_sq N s x :: mvw_sqs N (fst (mvw_step N s x)) r end.

Lemma mvw_exec_mean N xs : forall s,
  mv_mean (exec (mvw_step N) s xs) = exec (mstep N) (mv_mean s) xs.
Proof.
  induction xs as [|x xs IH]; intros s; cbn [exec]; [reflexivity|].
  rewrite IH, mvw_step_eq. reflexivity.
Qed.
Lemma mvw_exec_var N xs : forall s,
  mv_var (exec (mvw_step N) s xs) = exec (mstep N) (mv_var s) (mvw_sqs N s xs).
Proof.
  induction xs as [|x xs IH]; intros s; cbn [exec mvw_sqs]; [reflexivity|].
  rewrite IH, mvw_step_eq. reflexivity.
Qed.
Lemma mvw_run_fst N xs : forall s,
  map fst (run (mvw_step N) s xs) = run (mstep N) (mv_mean s) xs.
Proof.
  induction xs as [|x xs IH]; intros s; cbn [run map]; [reflexivity|].
  rewrite IH, mvw_step_eq. reflexivity.
Qed.
Lemma mvw_run_snd N xs : forall s,
  map snd (run (mvw_step N) s xs) = run (mstep N) (mv_var s) (mvw_sqs N s xs).
Proof.
  induction xs as [|x xs IH]; intros s; cbn [run map mvw_sqs]; [reflexivity|].
  rewrite IH, mvw_step_eq. reflexivity.
Qed.
Lemma mvw_sqs_snoc N xs x : forall s,
  mvw_sqs N s (xs ++ [x]) = mvw_sqs N s xs ++ [mvw_sq N (exec (mvw_step N) s xs) x].
Proof.
  induction xs as [|a xs IH]; intros s; cbn [app mvw_sqs exec]; [reflexivity|].
  rewrite IH. reflexivity.
Qed.
Lemma mvw_sqs_length N xs : forall s, length (mvw_sqs N s xs) = length xs.
Proof. induction xs as [|a xs IH]; intros s; cbn [mvw_sqs length]; auto. Qed.

Theorem mvw_mean_is_mean : forall N xs,
  map fst (run (mvw_step N) mvw_init xs) = run (Mean.step rdiv N false) Mean.init xs.
Proof. intros N xs. apply (mvw_run_fst N xs mvw_init). Qed.

(* ---- facts about the mean machine over non-negative / zero / shifted / Qeq-related inputs ---- *)
Section MeanFacts.
Variable N : nat.
Hypothesis HN : (0 < N)%nat.

Lemma mean_last_nonneg hist x :
  Forall (fun v => 0 <= v) (hist ++ [x]) -> 0 <= last_out (mstep N) Mean.init hist x.
Proof.
  intros H. rewrite (mean_window rdiv rdiv_proper N HN). cbv zeta. rok.
  pose proof (qsum_nonneg _ (Forall_lastn _ N _ H)) as Hs.
  assert (Hl : 0 < qnat (length (lastn N (hist ++ [x])))).
  { apply qnat_pos. rewrite lastn_length, app_length. simpl. lia. }
  apply Qle_shift_div_l; [exact Hl|]. rewrite Qmult_0_l. exact Hs.
Qed.

Lemma mean_last_zero hist x :
  Forall (fun v => v == 0) (hist ++ [x]) -> last_out (mstep N) Mean.init hist x == 0.
Proof.
  intros H. rewrite (mean_window rdiv rdiv_proper N HN). cbv zeta. rok.
  rewrite (qsum_zero _ (Forall_lastn _ N _ H)).
  assert (Hl : ~ qnat (length (lastn N (hist ++ [x]))) == 0).
  { apply qnat_neq0. rewrite lastn_length, app_length. simpl. lia. }
  field. exact Hl.
Qed.

Lemma mean_run_nonneg ys :
  Forall (fun v => 0 <= v) ys -> Forall (fun v => 0 <= v) (run (mstep N) Mean.init ys).
Proof.
  intros H. apply run_Forall_last. intros hist x rest E. subst ys.
  apply mean_last_nonneg. eapply Forall_prefix_snoc, H.
Qed.
Lemma mean_run_zero ys :
  Forall (fun v => v == 0) ys -> Forall (fun v => v == 0) (run (mstep N) Mean.init ys).
Proof.
  intros H. apply run_Forall_last. intros hist x rest E. subst ys.
  apply mean_last_zero. eapply Forall_prefix_snoc, H.
Qed.

Lemma mean_offset c hist x :
  last_out (mstep N) Mean.init (map (fun v => v + c) hist) (x + c)
  == last_out (mstep N) Mean.init hist x + c.
Proof.
  rewrite !(mean_window rdiv rdiv_proper N HN). cbv zeta.
  replace (map (fun v => v + c) hist ++ [x + c]) with (map (fun v => v + c) (hist ++ [x]))
    by (rewrite map_app; reflexivity).
  rewrite lastn_map, map_length, qsum_map_shift.
  assert (Hl : ~ qnat (length (lastn N (hist ++ [x]))) == 0).
  { apply qnat_neq0. rewrite lastn_length, app_length. simpl. lia. }
  rok. field. exact Hl.
Qed.

Lemma mean_last_compat h h' x x' : Forall2 Qeq h h' -> x == x' ->
  last_out (mstep N) Mean.init h x == last_out (mstep N) Mean.init h' x'.
Proof.
  intros Hh Hx. rewrite !(mean_window rdiv rdiv_proper N HN). cbv zeta.
  assert (F : Forall2 Qeq (h ++ [x]) (h' ++ [x'])).
  { apply Forall2_app; [assumption | constructor; [assumption | constructor]]. }
  pose proof (Forall2_len _ _ _ F) as L.
  rewrite !lastn_length, L.
  apply rdiv_proper; [|reflexivity].
  apply qsum_Forall2. unfold lastn. rewrite L. apply Forall2_skipn, F.
Qed.
End MeanFacts.

Lemma mvw_sqs_nonneg N xs : forall s, Forall (fun v => 0 <= v) (mvw_sqs N s xs).
Proof.
  induction xs as [|x xs IH]; intros s; cbn [mvw_sqs]; constructor; [apply sqv_nonneg | apply IH].
Qed.

Theorem mvw_var_nonneg : forall N, (0 < N)%nat -> forall xs,
  Forall (fun mv => 0 <= snd mv) (run (mvw_step N) mvw_init xs).
Proof.
  intros N HN xs. apply (proj1 (Forall_map snd (fun v => 0 <= v) _)).
  rewrite mvw_run_snd. apply (mean_run_nonneg N HN), mvw_sqs_nonneg.
Qed.

(* constant input *)
Lemma mvw_sqs_const_zero N c k : (0 < N)%nat ->
  Forall (fun v => v == 0) (mvw_sqs N mvw_init (repeat c k)).
Proof.
  intros HN. induction k as [|k IH]; [constructor|].
  cbn [repeat]. rewrite repeat_cons, mvw_sqs_snoc. apply Forall_app; split; [exact IH|].
  constructor; [|constructor].
  unfold mvw_sq. apply sqv_zero_r. rewrite mvw_exec_mean.
  apply (mean_constant_field N c k HN).
Qed.

Theorem mvw_var_const_zero : forall N, (0 < N)%nat -> forall c k,
  Forall (fun mv => snd mv == 0) (run (mvw_step N) mvw_init (repeat c k)).
Proof.
  intros N HN c k. apply (proj1 (Forall_map snd (fun v => v == 0) _)).
  rewrite mvw_run_snd. apply (mean_run_zero N HN), mvw_sqs_const_zero, HN.
Qed.

(* ================================================================ exponential *)
Definition mve_sq (w : Q) (s : option Q * option Q) (x : Q) : Q :=
  sqv x (oget (fst s) x) (snd (ema_step w (fst s) x)).

Lemma mve_step_eq w s x : mve_step w s x =
  ((fst (ema_step w (fst s) x), fst (ema_step w (snd s) (mve_sq w s x))),
   (snd (ema_step w (fst s) x), snd (ema_step w (snd s) (mve_sq w s x)))).
Proof. reflexivity. Qed.

Fixpoint mve_sqs (w : Q) (s : option Q * option Q) (xs : list Q) : list Q :=
  match xs with [] => [] | x :: r => mve_sq w s x :: mve_sqs w (fst (mve_step w s x)) r end.

Lemma mve_run_fst w xs : forall s,
  map fst (run (mve_step w) s xs) = run (ema_step w) (fst s) xs.
Proof.
  induction xs as [|x xs IH]; intros s; cbn [run map]; [reflexivity|].
  rewrite IH, mve_step_eq. reflexivity.
Qed.
Lemma mve_run_snd w xs : forall s,
  map snd (run (mve_step w) s xs) = run (ema_step w) (snd s) (mve_sqs w s xs).
Proof.
  induction xs as [|x xs IH]; intros s; cbn [run map mve_sqs]; [reflexivity|].
  rewrite IH, mve_step_eq. reflexivity.
Qed.

Theorem mve_mean_is_mean : forall w xs,
  map fst (run (mve_step w) mve_init xs) = run (ema_step w) None xs.
Proof. intros w xs. apply (mve_run_fst w xs mve_init). Qed.

Lemma ema_fst_snd w s x : fst (ema_step w s x) = Some (snd (ema_step w s x)).
Proof. reflexivity. Qed.

Lemma ema_out_nonneg w s x : 0 <= w -> w <= 1 -> 0 <= x ->
  match s with Some y => 0 <= y | None => True end -> 0 <= snd (ema_step w s x).
Proof.
  intros H0 H1 Hx Hs. destruct s as [y|]; cbn [ema_step snd]; [|exact Hx].
  rok. nra.
Qed.
Lemma ema_run_nonneg w : 0 <= w -> w <= 1 -> forall ys s,
  Forall (fun v => 0 <= v) ys -> match s with Some y => 0 <= y | None => True end ->
  Forall (fun v => 0 <= v) (run (ema_step w) s ys).
Proof.
  intros H0 H1. induction ys as [|a ys IH]; intros s Hy Hs; cbn [run]; [constructor|].
  inversion Hy; subst.
  pose proof (ema_out_nonneg w s a H0 H1 ltac:(assumption) Hs) as Ho.
  constructor; [exact Ho|]. apply IH; [assumption|]. rewrite ema_fst_snd. exact Ho.
Qed.

Lemma mve_sqs_nonneg w xs : forall s, Forall (fun v => 0 <= v) (mve_sqs w s xs).
Proof.
  induction xs as [|x xs IH]; intros s; cbn [mve_sqs]; constructor; [apply sqv_nonneg | apply IH].
Qed.

Theorem mve_var_nonneg : forall w, 0 <= w -> w <= 1 -> forall xs,
  Forall (fun mv => 0 <= snd mv) (run (mve_step w) mve_init xs).
Proof.
  intros w H0 H1 xs. apply (proj1 (Forall_map snd (fun v => 0 <= v) _)).
  rewrite mve_run_snd. apply ema_run_nonneg; auto. apply mve_sqs_nonneg. exact I.
Qed.

(* constant input, any gain *)
Lemma ema_out_const w s c :
  match s with Some y => y == c | None => True end -> snd (ema_step w s c) == c.
Proof.
  intros Hs. destruct s as [y|]; cbn [ema_step snd]; [|reflexivity].
  rok. rewrite Hs. ring.
Qed.
Lemma ema_run_zero w : forall ys s,
  Forall (fun v => v == 0) ys -> match s with Some y => y == 0 | None => True end ->
  Forall (fun v => v == 0) (run (ema_step w) s ys).
Proof.
  induction ys as [|a ys IH]; intros s Hy Hs; cbn [run]; [constructor|].
  inversion Hy as [|? ? Ha Hy']; subst.
  assert (Ho : snd (ema_step w s a) == 0).
  { destruct s as [y|]; cbn [ema_step snd]; [|exact Ha]. rok. rewrite Hs, Ha. ring. }
  constructor; [exact Ho|]. apply IH; [assumption|]. rewrite ema_fst_snd. exact Ho.
Qed.
Lemma mve_sqs_const_zero w c k : forall s,
  match fst s with Some y => y == c | None => True end ->
  Forall (fun v => v == 0) (mve_sqs w s (repeat c k)).
Proof.
  induction k as [|k IH]; intros s Hs; cbn [repeat mve_sqs]; constructor.
  - unfold mve_sq. apply sqv_zero_r, ema_out_const, Hs.
  - apply IH. rewrite mve_step_eq. cbn [fst]. rewrite ema_fst_snd. apply ema_out_const, Hs.
Qed.

Theorem mve_var_const_zero : forall w c k,
  Forall (fun mv => snd mv == 0) (run (mve_step w) mve_init (repeat c k)).
Proof.
  intros w c k. apply (proj1 (Forall_map snd (fun v => v == 0) _)).
  rewrite mve_run_snd. apply ema_run_zero; [|exact I]. apply mve_sqs_const_zero. exact I.
Qed.

(* offset invariance, any gain *)
Definition oshift (c : Q) (a b : option Q) : Prop :=
  match a, b with Some x, Some y => y == x + c | None, None => True | _, _ => False end.

Lemma ema_out_shift w c s s' x : oshift c s s' ->
  snd (ema_step w s' (x + c)) == snd (ema_step w s x) + c.
Proof.
  intros H. destruct s as [y|], s' as [y'|]; cbn [oshift] in H; try contradiction;
    cbn [ema_step snd]; [|reflexivity].
  rok. rewrite H. ring.
Qed.
Lemma ema_out_compat w s s' x x' : oQeq s s' -> x == x' ->
  snd (ema_step w s x) == snd (ema_step w s' x').
Proof.
  intros H Hx. destruct s as [y|], s' as [y'|]; cbn [oQeq] in H; try contradiction;
    cbn [ema_step snd]; [|exact Hx].
  rok. rewrite H, Hx. reflexivity.
Qed.
Lemma oget_shift c s s' x : oshift c s s' -> oget s' (x + c) == oget s x + c.
Proof.
  intros H. destruct s as [y|], s' as [y'|]; cbn [oshift] in H; try contradiction; cbn [oget];
    [exact H | reflexivity].
Qed.

Lemma mve_sq_shift w c s s' x : oshift c (fst s) (fst s') ->
  mve_sq w s' (x + c) == mve_sq w s x.
Proof.
  intros H. unfold mve_sq.
  rewrite (oget_shift c _ _ x H), (ema_out_shift w c _ _ x H). apply sqv_offset.
Qed.

Lemma mve_run_offset w c xs : forall s s',
  oshift c (fst s) (fst s') -> oQeq (snd s) (snd s') ->
  Forall2 (fun a b => snd a == snd b) (run (mve_step w) s xs)
                                      (run (mve_step w) s' (map (fun x => x + c) xs)).
Proof.
  induction xs as [|x xs IH]; intros s s' Hm Hv; cbn [run map]; [constructor|].
  pose proof (mve_sq_shift w c s s' x Hm) as Hsq.
  assert (Hout : snd (ema_step w (snd s) (mve_sq w s x))
                 == snd (ema_step w (snd s') (mve_sq w s' (x + c)))).
  { apply ema_out_compat; [exact Hv | symmetry; exact Hsq]. }
  constructor.
  - rewrite !mve_step_eq. cbn [snd]. exact Hout.
  - apply IH; rewrite !mve_step_eq; cbn [fst snd]; rewrite !ema_fst_snd.
    + cbn [oshift]. apply ema_out_shift, Hm.
    + cbn [oQeq]. exact Hout.
Qed.

Theorem mve_var_offset : forall w c xs,
  Forall2 (fun a b => snd a == snd b) (run (mve_step w) mve_init xs)
                                      (run (mve_step w) mve_init (map (fun x => x + c) xs)).
Proof. intros w c xs. apply mve_run_offset; exact I. Qed.

(* ================================================================ sliding window and offsets *)
Theorem mvw_var_offset_refuted :
  map snd (run (mvw_step 3) mvw_init [1; 2; 4]) = [0; 1#4; 13#18] /\
  map snd (run (mvw_step 3) mvw_init [11; 12; 14]) = [0; 1#4; 31#6].
Proof. vm_compute. split; reflexivity. Qed.

(* width 1: the mean is the sample itself, so the variance is identically zero *)
Lemma mean1_last hist x : last_out (mstep 1) Mean.init hist x == x.
Proof.
  rewrite (mean_window rdiv rdiv_proper 1 ltac:(lia)). cbv zeta.
  rewrite (lastn_lastn_app 1 hist [x]) by (simpl; lia).
  rewrite (lastn_all 1 [x]) by (simpl; lia). cbn [qsum length]. rok.
  change (qnat 1) with 1. field.
Qed.
Lemma mvw1_sqs_zero xs : Forall (fun v => v == 0) (mvw_sqs 1 mvw_init xs).
Proof.
  induction xs as [|x xs IH] using rev_ind; [constructor|].
  rewrite mvw_sqs_snoc. apply Forall_app; split; [exact IH|]. constructor; [|constructor].
  unfold mvw_sq. apply sqv_zero_r. rewrite mvw_exec_mean. apply mean1_last.
Qed.
Lemma mvw1_var_zero xs : Forall (fun v => v == 0) (map snd (run (mvw_step 1) mvw_init xs)).
Proof. rewrite mvw_run_snd. apply (mean_run_zero 1 ltac:(lia)), mvw1_sqs_zero. Qed.

(* any width: the first two outputs *)
Lemma mean_first_state N x : (0 < N)%nat ->
  Mean.mean (fst (mstep N Mean.init x)) = Some (radd 0 x).
Proof. intros H. destruct N as [|n]; [lia|]. reflexivity. Qed.

Lemma mvw_sq_first N x : mvw_sq N mvw_init x == 0.
Proof. unfold mvw_sq. apply sqv_zero_l. reflexivity. Qed.

Lemma mvw_sq_second N c x y : (0 < N)%nat ->
  mvw_sq N (fst (mvw_step N mvw_init (x + c))) (y + c) == mvw_sq N (fst (mvw_step N mvw_init x)) y.
Proof.
  intros HN. unfold mvw_sq. rewrite !mvw_step_eq. cbn [fst mv_mean mvw_init].
  rewrite !(mean_first_state N _ HN). cbn [oget].
  change (snd (mstep N (fst (mstep N Mean.init (x + c))) (y + c)))
    with (last_out (mstep N) Mean.init (map (fun v => v + c) [x]) (y + c)).
  change (snd (mstep N (fst (mstep N Mean.init x)) y))
    with (last_out (mstep N) Mean.init [x] y).
  rewrite (mean_offset N HN c [x] y).
  assert (E : radd 0 (x + c) == radd 0 x + c) by (rok; ring).
  rewrite E. apply sqv_offset.
Qed.

Lemma mvw_first_two N c x y rest rest' : (0 < N)%nat ->
  Forall2 Qeq (firstn 2 (map snd (run (mvw_step N) mvw_init (x :: y :: rest))))
              (firstn 2 (map snd (run (mvw_step N) mvw_init ((x + c) :: (y + c) :: rest')))).
Proof.
  intros HN. cbn [run map firstn].
  set (s1 := fst (mvw_step N mvw_init x)). set (s1' := fst (mvw_step N mvw_init (x + c))).
  assert (V1 : snd (snd (mvw_step N mvw_init x)) == snd (snd (mvw_step N mvw_init (x + c)))).
  { rewrite !mvw_step_eq. cbn [snd mv_var mvw_init].
    apply (mean_last_compat N HN [] [] _ _ (Forall2_nil _)).
    rewrite !mvw_sq_first. reflexivity. }
  assert (V2 : snd (snd (mvw_step N s1 y)) == snd (snd (mvw_step N s1' (y + c)))).
  { rewrite (mvw_step_eq N s1), (mvw_step_eq N s1'). cbn [snd].
    unfold s1 at 1, s1' at 1. rewrite !mvw_step_eq. cbn [fst mv_var mvw_init].
    apply (mean_last_compat N HN [mvw_sq N mvw_init x] [mvw_sq N mvw_init (x + c)]).
    - constructor; [|constructor]. rewrite !mvw_sq_first. reflexivity.
    - symmetry. apply mvw_sq_second, HN. }
  constructor; [exact V1|]. constructor; [exact V2|]. constructor.
Qed.

Theorem mvw_var_offset_partial : forall N c xs, (0 < N)%nat ->
  let a := map snd (run (mvw_step N) mvw_init xs) in
  let b := map snd (run (mvw_step N) mvw_init (map (fun x => x + c) xs)) in
  (N = 1%nat -> Forall2 Qeq a b) /\ Forall2 Qeq (firstn 2 a) (firstn 2 b).
Proof.
  intros N c xs HN a b. split.
  - intros ->. unfold a, b. apply Forall2_of_zero; [|apply mvw1_var_zero..].
    rewrite !map_length, !run_length, map_length. reflexivity.
  - unfold a, b. destruct xs as [|x [|y rest]].
    + constructor.
    + cbn [run map firstn]. constructor; [|constructor].
      rewrite !mvw_step_eq. cbn [snd mv_var mvw_init].
      apply (mean_last_compat N HN [] [] _ _ (Forall2_nil _)).
      rewrite !mvw_sq_first. reflexivity.
    + cbn [map]. apply mvw_first_two, HN.
Qed.
