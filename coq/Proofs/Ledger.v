(* C19 proofs: ownership bookkeeping of the windowed filters (Model/Ledger.v). *)
From Coq Require Import ZArith NArith List Arith Lia Bool.
From Signalo Require Import Base.QR Base.Opt Base.ListX Base.Machine.
From Signalo Require Model.Median Model.Mean Model.Bounds Model.Convolve.
From Signalo Require Proofs.MedianBase Proofs.Median Proofs.Mean Proofs.Convolve.
From Signalo Require Import Model.Ledger.
Import ListNotations.

(* ------------------------------------------------------------------------------------------ *)
(* counting occupied slots                                                                    *)

Lemma count_some_prefix {A} (l : list (option A)) : forall k, (k <= length l)%nat ->
  (forall i, (i < k)%nat -> nth i l None <> None) ->
  (forall i, (k <= i)%nat -> (i < length l)%nat -> nth i l None = None) ->
  count_some l = k.
Proof.
  unfold count_some.
  induction l as [|a l IH]; intros k Hk Hs Hn.
  - simpl in *. lia.
  - destruct k as [|k].
    + pose proof (Hn 0%nat (Nat.le_refl _) ltac:(simpl; lia)) as H0. simpl in H0. subst a.
      cbn [filter]. apply IH; [lia|intros; lia|].
      intros i _ Hi. apply (Hn (S i)); simpl; lia.
    + pose proof (Hs 0%nat ltac:(lia)) as H0. simpl in H0.
      destruct a as [a|]; [|congruence]. cbn [filter length]. f_equal.
      apply IH; [simpl in Hk; lia| |].
      * intros i Hi. apply (Hs (S i)). lia.
      * intros i Hi1 Hi2. apply (Hn (S i)); simpl; lia.
Qed.

Lemma nth_map_value (b : list (Median.node Z)) i :
  nth i (map (@Median.value Z) b) None = @MedianBase.vl Z b i.
Proof.
  unfold MedianBase.vl, MedianBase.gt.
  change (@None Z) with (Median.value (@MedianBase.dnode Z)) at 1.
  apply map_nth.
Qed.

(* a representative of slot [i] among the last [N] history positions *)
Lemma slot_index N L i : (0 < N)%nat -> (N <= L)%nat -> (i < N)%nat ->
  exists j, (j < L)%nat /\ (L <= j + N)%nat /\ j mod N = i.
Proof.
  intros HN HL Hi. set (base := (L - N)%nat).
  assert (Hn0 : N <> 0%nat) by lia.
  pose proof (Nat.div_mod base N Hn0) as Hdm.
  pose proof (Nat.mod_upper_bound base N Hn0) as Hub.
  set (q := (base / N)%nat) in *. set (r := (base mod N)%nat) in *.
  destruct (le_lt_dec r i) as [Hri|Hri].
  - exists (i + q * N)%nat. repeat split; try nia.
    rewrite Nat.mod_add by exact Hn0. apply Nat.mod_small. exact Hi.
  - exists (i + (S q) * N)%nat. repeat split; try nia.
    rewrite Nat.mod_add by exact Hn0. apply Nat.mod_small. exact Hi.
Qed.

Lemma median_owned : forall N hist s, (0 < N)%nat ->
  oexec (Median.filter Z.leb) (Median.init N) hist = Some s ->
  owned N (IMedian s) = Nat.min (length hist) N.
Proof.
  intros N hist s HN He.
  destruct (Proofs.Median.reach Z Z.leb N HN hist) as (s' & ring & sorted & He' & I).
  rewrite He in He'. injection He' as <-.
  pose proof (Proofs.Median.i_len _ _ _ _ _ _ _ I) as Hlen.
  pose proof (Proofs.Median.i_age _ _ _ _ _ _ _ I) as Hage.
  pose proof (Proofs.Median.i_empty _ _ _ _ _ _ _ I) as Hemp.
  cbn [owned].
  assert (Hl : length (map (@Median.value Z) (Median.buffer s)) = N) by (rewrite map_length; exact Hlen).
  apply count_some_prefix.
  - rewrite Hl. lia.
  - intros i Hi. rewrite nth_map_value.
    destruct (le_lt_dec N (length hist)) as [Hfull|Hshort].
    + assert (HiN : (i < N)%nat) by lia.
      destruct (slot_index N (length hist) i HN Hfull HiN) as (j & Hj1 & Hj2 & Hj3).
      rewrite <- Hj3, (Hage j Hj1 Hj2). apply nth_error_Some. exact Hj1.
    + assert (Hi' : (i < length hist)%nat) by lia.
      rewrite <- (Nat.mod_small i N) by lia.
      rewrite (Hage i Hi') by lia. apply nth_error_Some. exact Hi'.
  - intros i Hi1 Hi2. rewrite Hl in Hi2. rewrite nth_map_value.
    apply Hemp; lia.
Qed.

(* ------------------------------------------------------------------------------------------ *)
Lemma mean_owned : forall N hist, (0 < N)%nat ->
  owned N (IMean (exec (Mean.step Mean.qquot N false) Mean.init hist))
  = (Nat.min (length hist) N + (match hist with [] => 1 | _ => 2 end))%nat.
Proof.
  intros N hist HN.
  pose proof (Proofs.Mean.Inv_exec Mean.qquot Proofs.Mean.qquot_proper N HN hist) as I.
  unfold Proofs.Mean.Inv in I. cbv zeta in I. destruct I as (Ht & _ & Hm).
  cbn [owned]. rewrite Ht, lastn_length.
  destruct (Mean.mean _) as [m|].
  - destruct Hm as [Hne _]. destruct hist; [congruence|]. lia.
  - subst hist. simpl. lia.
Qed.

(* ------------------------------------------------------------------------------------------ *)
(* moving max: the deque never exceeds the ring capacity, and a successful step leaves a front *)
Section BoundsLen.
Context {T : Type}.
Variable leb : T -> T -> bool.
Variables n maxu : N.

Lemma expire_len old ct l l' : Bounds.expire T n maxu old ct l = Some l' -> (length l' <= length l)%nat.
Proof.
  revert l'. induction l as [|[v t] r IH]; intros l' H; cbn [Bounds.expire] in H.
  - injection H as <-. lia.
  - destruct old.
    + destruct (Bounds.cadd maxu t n) as [d|]; cbn [obind] in H; [|discriminate].
      destruct (N.leb d ct).
      * apply IH in H. simpl. lia.
      * injection H as <-. lia.
    + destruct (Bounds.csub ct t) as [d|]; cbn [obind] in H; [|discriminate].
      destruct (N.leb n d).
      * apply IH in H. simpl. lia.
      * injection H as <-. lia.
Qed.

Lemma drop_len x l : (length (Bounds.drop_dominated T leb x l) <= length l)%nat.
Proof.
  induction l as [|[v t] r IH]; cbn [Bounds.drop_dominated]; [lia|].
  destruct (negb (leb x v)); simpl; lia.
Qed.

Lemma rebase_len off l l' : Bounds.rebase T off l = Some l' -> length l' = length l.
Proof.
  revert l'. induction l as [|[v t] r IH]; intros l' H; cbn [Bounds.rebase] in H.
  - injection H as <-. reflexivity.
  - destruct (Bounds.csub t off) as [t'|]; cbn [obind] in H; [|discriminate].
    destruct (Bounds.rebase T off r) as [r'|]; cbn [obind] in H; [|discriminate].
    injection H as <-. simpl. f_equal. apply IH. reflexivity.
Qed.

Lemma push_back_len {A} k (l : list A) e : (length l <= k)%nat -> (length (fst (push_back k l e)) <= k)%nat.
Proof.
  intros H. unfold push_back. destruct (Nat.eqb_spec k 0); [exact H|].
  destruct (Nat.ltb_spec (length l) k); cbn [fst]; rewrite app_length; simpl.
  - lia.
  - destruct l; simpl in *; lia.
Qed.

Lemma step_len old s x s' y : Bounds.step leb n maxu old s x = Some (s', y) ->
  (length (Bounds.taps s) <= N.to_nat n)%nat ->
  (length (Bounds.taps s') <= N.to_nat n)%nat /\ (1 <= length (Bounds.taps s'))%nat.
Proof.
  intros H Hl. unfold Bounds.step in H.
  destruct (Bounds.expire T n maxu old (Bounds.time s) (Bounds.taps s)) as [t1|] eqn:E1; cbn [obind] in H; [|discriminate].
  apply expire_len in E1.
  set (t2 := rev (Bounds.drop_dominated T leb x (rev t1))) in *.
  assert (H2 : (length t2 <= N.to_nat n)%nat).
  { unfold t2. rewrite rev_length. pose proof (drop_len x (rev t1)) as D. rewrite rev_length in D. lia. }
  pose proof (push_back_len (N.to_nat n) t2 (x, Bounds.time s) H2) as H3.
  set (t3 := fst (push_back (N.to_nat n) t2 (x, Bounds.time s))) in *.
  assert (Hfin : forall tm t5, (length t5 <= N.to_nat n)%nat ->
            match t5 with
            | (v, _) :: _ => Some ({| Bounds.time := tm; Bounds.taps := t5 |}, v)
            | [] => None end = Some (s', y) ->
            (length (Bounds.taps s') <= N.to_nat n)%nat /\ (1 <= length (Bounds.taps s'))%nat).
  { intros tm t5 L5 E. destruct t5 as [|[v t] r]; [discriminate|]. injection E as <- _.
    cbn [Bounds.taps]. split; [exact L5|simpl; lia]. }
  destruct (N.ltb (Bounds.time s) maxu).
  - cbn [obind] in H. eapply Hfin; eauto.
  - destruct (Bounds.csub (Bounds.time s) n) as [off|]; cbn [obind] in H; [|discriminate].
    destruct (Bounds.rebase T off t3) as [t4|] eqn:E4; cbn [obind] in H; [|discriminate].
    apply rebase_len in E4.
    destruct (if old then Some n else Bounds.cadd maxu n 1) as [tm|]; cbn [obind] in H; [|discriminate].
    eapply (Hfin tm t4); [lia|exact H].
Qed.

Lemma oexec_len old hist : forall s0 s,
  (length (Bounds.taps s0) <= N.to_nat n)%nat ->
  oexec (Bounds.step leb n maxu old) s0 hist = Some s ->
  (length (Bounds.taps s) <= N.to_nat n)%nat /\ (hist <> [] -> (1 <= length (Bounds.taps s))%nat).
Proof.
  induction hist as [|x r IH]; intros s0 s L H; cbn [oexec] in H.
  - injection H as <-. split; [exact L|congruence].
  - destruct (Bounds.step leb n maxu old s0 x) as [[s1 y]|] eqn:E; [|discriminate].
    destruct (step_len _ _ _ _ _ E L) as [L1 L1'].
    destruct (IH s1 s L1 H) as [A B]. split; [exact A|]. intros _.
    destruct r as [|x' r']; [|apply B; discriminate].
    cbn [oexec] in H. injection H as <-. exact L1'.
Qed.
End BoundsLen.

Lemma max_owned_bounded : forall n hist s, (0 < n)%nat ->
  oexec (Bounds.max_step Z.leb (N.of_nat n) Bounds.usize_max false) Bounds.init hist = Some s ->
  (owned n (IMax s) <= n)%nat /\ (hist <> [] -> (1 <= owned n (IMax s))%nat).
Proof.
  intros n hist s _ H. cbn [owned]. unfold Bounds.max_step in H.
  pose proof (oexec_len Z.leb (N.of_nat n) Bounds.usize_max false hist Bounds.init s) as P.
  rewrite Nat2N.id in P. apply P; [simpl; lia|exact H].
Qed.

(* ------------------------------------------------------------------------------------------ *)
Lemma conv_owned : forall n coeffs x0 hist t, length coeffs = n ->
  oexec (Convolve.conv_step n coeffs) [] (x0 :: hist) = Some t -> owned n (IConv t) = (n + n)%nat.
Proof.
  intros n coeffs x0 hist t _ H. rewrite Proofs.Convolve.taps_inv in H. injection H as <-.
  cbn [owned]. rewrite Proofs.Convolve.window_length. reflexivity.
Qed.

Lemma delay_owned : forall n (x0 : Z) hist t,
  oexec (Convolve.delay_step n) [] (x0 :: hist) = Some t -> owned n (IDelay t) = n.
Proof.
  intros n x0 hist t H.
  destruct (Proofs.Convolve.delay_run n x0 hist) as (ys & _ & E & _).
  rewrite E in H. injection H as <-. cbn [owned]. apply Proofs.Convolve.gwindow_length.
Qed.

(* ------------------------------------------------------------------------------------------ *)
(* ledger arithmetic                                                                          *)
Lemma live_app n a b : live n (a ++ b) = (live n a + live n b)%nat.
Proof.
  induction a as [|[i|] a IH]; cbn [app live fold_right]; [reflexivity| |].
  - fold (live n (a ++ b)). fold (live n a). rewrite IH. lia.
  - fold (live n (a ++ b)). fold (live n a). exact IH.
Qed.

Lemma live_cons n x l : live n (x :: l) = (match x with Some i => owned n i | None => 0 end + live n l)%nat.
Proof. destruct x; reflexivity. Qed.

Lemma split_at {A} (l : list A) j v : nth_error l j = Some v -> l = firstn j l ++ v :: skipn (S j) l.
Proof.
  revert j; induction l as [|y l IH]; intros [|j] H; simpl in *; try discriminate.
  - congruence.
  - f_equal. apply IH. exact H.
Qed.

Lemma live_set_slot n pool j i x : nth_error pool j = Some (Some i) ->
  (live n (set_slot pool j x) + owned n i
   = live n pool + match x with Some i' => owned n i' | None => 0 end)%nat.
Proof.
  intros H. unfold set_slot. rewrite (split_at pool j _ H) at 3.
  rewrite !live_app, !live_cons. lia.
Qed.

Lemma live_none n (pool : list (option inst)) : live n (map (fun _ => None) pool) = 0%nat.
Proof. induction pool as [|a l IH]; [reflexivity|]. cbn [map]. rewrite live_cons. exact IH. Qed.

Lemma ledger_ops : forall k n pool j i,
  nth_error pool j = Some (Some i) ->
  exec_op k n pool (OClone j) = Some (pool ++ [Some i]) /\ live n (pool ++ [Some i]) = (live n pool + owned n i)%nat /\
  (live n (set_slot pool j None) + owned n i = live n pool)%nat /\
  (live n (set_slot pool j (Some (fresh k n))) + owned n i = live n pool + owned n (fresh k n))%nat /\
  exec_op k n pool (OGuts j) = Some pool /\
  live n (map (fun _ => None) pool) = 0%nat.
Proof.
  intros k n pool j i H.
  assert (Hn : nth j pool None = Some i) by (apply nth_error_nth; exact H).
  repeat split.
  - cbn [exec_op]. rewrite Hn. reflexivity.
  - rewrite live_app, live_cons. cbn. lia.
  - rewrite (live_set_slot n pool j i None H). lia.
  - apply (live_set_slot n pool j i (Some (fresh k n)) H).
  - apply live_none.
Qed.

(* ------------------------------------------------------------------------------------------ *)
(* the MaybeUninit loop                                                                       *)
Lemma upd_opt_app {A} (l1 l2 : list (option A)) x a :
  upd_opt (l1 ++ x :: l2) (length l1) a = l1 ++ Some a :: l2.
Proof. induction l1 as [|y l1 IH]; cbn [app length upd_opt]; [reflexivity|]. f_equal. exact IH. Qed.

Lemma uninit_prefix n : forall k, (k <= n)%nat ->
  fold_left (fun arr i => upd_opt arr i (init_node n i)) (seq 0 k) (repeat None n)
  = map Some (map (init_node n) (seq 0 k)) ++ repeat None (n - k).
Proof.
  induction k as [|k IH]; intros Hk.
  - cbn [seq fold_left map app]. rewrite Nat.sub_0_r. reflexivity.
  - rewrite seq_S, fold_left_app, IH by lia. cbn [fold_left Nat.add].
    replace (n - k)%nat with (S (n - S k)) by lia. cbn [repeat].
    set (L := map Some (map (init_node n) (seq 0 k))).
    assert (HL : length L = k) by (unfold L; rewrite !map_length, seq_length; reflexivity).
    rewrite <- HL at 2. rewrite upd_opt_app.
    rewrite !map_app. cbn [map]. rewrite <- app_assoc. reflexivity.
Qed.

Lemma uninit_loop_initialises : forall n,
  uninit_write n = map Some (Median.buffer (@Median.init Z n)).
Proof.
  intros n. unfold uninit_write. rewrite uninit_prefix by lia.
  rewrite Nat.sub_diag. cbn [repeat]. rewrite app_nil_r. reflexivity.
Qed.
