(* C07 — no false alarm: whenever the recorded analysis / synthesis outputs agree with the model (bit 1
   clear), the boolean spec of Check/C07 (two convolutions, then the sum of two convolutions) accepts them. *)
From Coq Require Import NArith Morphisms.
From Signalo Require Import Check.Common Model.Wavelet Spec.C05 Spec.C07 Base.Lincomb.
From Signalo Require Import Proofs.Convolve Proofs.Wavelet Check.C07 Proofs.Sound_LibB.

Lemma qpair_eqb_iff a b : qpair_eqb a b = true <-> peq a b.
Proof. unfold qpair_eqb, peq. rewrite Bool.andb_true_iff, !qeqb_iff. reflexivity. Qed.
Lemma pl_eqb_iff a b : list_eqb qpair_eqb a b = true <-> pleq a b.
Proof. apply list_eqb_iff, qpair_eqb_iff. Qed.

Lemma qnth_map_fst k (l : list (Q * Q)) : qnth k (map fst l) = fst (nth k l (0, 0)).
Proof. unfold qnth. change 0 with (fst (0, 0)) at 1. apply map_nth. Qed.
Lemma qnth_map_snd k (l : list (Q * Q)) : qnth k (map snd l) = snd (nth k l (0, 0)).
Proof. unfold qnth. change 0 with (snd (0, 0)) at 1. apply map_nth. Qed.

(* the FIR sum respects pointwise Qeq of the signal *)
Lemma fir_sig_qleq c sig sig' n : qleq sig sig' -> fir c sig n == fir c sig' n.
Proof.
  intros H. unfold fir. apply qsum_map_ext. intros j _. unfold sig_at.
  rewrite (qleq_qnth _ _ (n - j) H : nth (n - j) sig 0 == nth (n - j) sig' 0). reflexivity.
Qed.

(* the model never panics (kernels of one length); analysis = two convolutions, synthesis = their sum *)
Lemma ana_model low high xs : length high = length low -> exists das,
  orun_partial (ana_step (length low) low high) ([], []) xs = (das, false) /\ length das = length xs /\
  forall k, (k < length xs)%nat ->
    qnth k (map fst das) == fir low xs k /\ qnth k (map snd das) == fir high xs k.
Proof.
  intros HL. destruct xs as [|x0 hist].
  - exists []. split; [reflexivity|]. split; [reflexivity|]. intros k Hk. cbn in Hk. lia.
  - destruct (analyze_is_two_convs low high x0 hist HL) as (das & Ho & L & F). exists das.
    split; [apply orun_partial_of_orun, Ho|]. split; [exact L|].
    intros k Hk. rewrite qnth_map_fst, qnth_map_snd. apply F, Hk.
Qed.
Lemma syn_model low high das : length high = length low -> exists ys,
  orun_partial (syn_step (length low) low high) ([], []) das = (ys, false) /\ length ys = length das /\
  forall k, (k < length das)%nat -> qnth k ys == fir low (map fst das) k + fir high (map snd das) k.
Proof.
  intros HL. destruct das as [|lh0 lhs].
  - exists []. split; [reflexivity|]. split; [reflexivity|]. intros k Hk. cbn in Hk. lia.
  - destruct (synthesize_is_sum low high lh0 lhs HL) as (ys & Ho & L & F). exists ys.
    split; [apply orun_partial_of_orun, Ho|]. split; [exact L | exact F].
Qed.

(* Side conditions.
   kind 0: Analyze<T,N> / Synthesize<T,N> hold four kernels of the SAME length N (arrays [T; N]); the check takes
           n = length clowA for all four machines, while the spec's [fir] uses each kernel's own length, so a case
           with kernels of different lengths raises a spec alarm on model-exact outputs (example below).
   kind 1, 2 (preset tables): there is no model output; the verdict is 2 exactly when the table test fails. *)
Definition wf (c : case) : bool :=
  match ckind c with
  | 0%nat => (length (chighA c) =? length (clowA c))%nat && (length (clowS c) =? length (clowA c))%nat
             && (length (chighS c) =? length (clowA c))%nat
  | k => let '(ts, tr) := match k with 1%nat => (2 # 10000000000, 1 # 1000000000) | _ => (1 # 1000000, 2 # 1000000) end in
         qlist_eqb (chighA c) (alt false (rev (clowA c))) && qlist_eqb (clowS c) (rev (clowA c))
         && qlist_eqb (chighS c) (rev (chighA c)) && daub_ok ts tr (clowA c) (chighA c) (clowS c) (chighS c)
  end.

Definition cex_lengths : case :=
  let '(das, _) := orun_partial (ana_step 1 [1] [1; 1]) ([], []) [1; 2] in
  let '(ys, _) := orun_partial (syn_step 1 [1] [1]) ([], []) das in
  mk 0 [1] [1; 1] [1] [1] [1; 2] das ys false.
Example C07_alarm_kernel_lengths : N.land (code (check cex_lengths)) 3 = 2%N.
Proof. vm_compute. reflexivity. Qed.
Example C07_alarm_table : N.land (code (check (mk 1 [1] [1] [1] [1] [] [] [] false))) 3 = 2%N.
Proof. vm_compute. reflexivity. Qed.

Theorem C07_check_sound : forall c : case, wf c = true -> N.land (code (check c)) 3 <> 2%N.
Proof.
  intros c Hwf. unfold wf in Hwf. unfold check. cbv zeta.
  destruct (ckind c) as [|k].
  - apply andb_prop in Hwf as [Hwf H3]. apply andb_prop in Hwf as [H1 H2].
    apply Nat.eqb_eq in H1. apply Nat.eqb_eq in H2. apply Nat.eqb_eq in H3.
    destruct (ana_model (clowA c) (chighA c) (cxs c) H1) as (das & Ea & La & Fa). rewrite Ea.
    assert (H3' : length (chighS c) = length (clowS c)) by congruence.
    destruct (syn_model (clowS c) (chighS c) das H3') as (ys & Es & Ls & Fs). rewrite H2 in Es. rewrite Es.
    apply mkv_sound. intros H.
    apply andb_prop in H as [H Hys]. apply andb_prop in H as [Hp Hdec]. apply Bool.eqb_prop in Hp.
    assert (Qy : qleq ys (cys c)) by (apply qlist_eqb_iff; exact Hys).
    assert (Qd : pleq das (cdec c)) by (apply pl_eqb_iff; exact Hdec).
    pose proof (pleq_fst _ _ Qd) as Ql. pose proof (pleq_snd _ _ Qd) as Qh.
    rewrite <- Hp. cbn [orb negb andb].
    rewrite <- (qleq_length _ _ Qy), Ls, <- (Forall2_length' _ _ _ Qd), La, Nat.eqb_refl. cbn [andb].
    apply forallb_forall. intros n Hn. apply in_seq in Hn.
    destruct (Fa n ltac:(lia)) as [Fl Fh].
    apply andb_true_intro. split; [apply andb_true_intro; split|]; apply qeqb_iff.
    + rewrite <- (qleq_qnth _ _ n Ql). exact Fl.
    + rewrite <- (qleq_qnth _ _ n Qh). exact Fh.
    + rewrite <- (qleq_qnth _ _ n Qy), Fs by lia.
      rewrite (fir_sig_qleq _ _ _ n Ql), (fir_sig_qleq _ _ _ n Qh). reflexivity.
  - destruct (match k with 0%nat => (2 # 10000000000, 1 # 1000000000) | S _ => (1 # 1000000, 2 # 1000000) end) as [ts tr].
    rewrite Hwf. cbn. discriminate.
Qed.
Print Assumptions C07_check_sound.
