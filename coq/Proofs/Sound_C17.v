(* C17 — "no false alarm": on NaN-free inputs the checker of Check/C17.v never raises the spec alarm (bit 2)
   on recorded accessor values that agree with the model (bit 1 clear); a max() failure of the model is always
   inside the known class (bit 4).  Re-uses the NaN-order invariant of Proofs/Sound_C02.v. *)
From Coq Require Import List Arith Lia Bool Permutation ZArith.
From Signalo Require Import Base.Machine Base.Report Spec.C02 Model.Median.
From Signalo Require Import Proofs.MedianBase Proofs.MedianSort Proofs.Median.
From Signalo Require Import Check.C02 Check.C17 Proofs.Sound_C02.
Import ListNotations.

(* ---------- reflection ---------- *)
Lemma opt_eqb_eq {A} (e : A -> A -> bool) : (forall a b, e a b = true -> a = b) ->
  forall a b, opt_eqb e a b = true -> a = b.
Proof. intros He [a|] [b|]; simpl; intros H; try discriminate; auto. f_equal; auto. Qed.
Lemma opt_eqb_refl {A} (e : A -> A -> bool) : (forall a, e a a = true) -> forall a, opt_eqb e a a = true.
Proof. intros He [a|]; simpl; auto. Qed.
Lemma ooz_refl a : opt_eqb (opt_eqb oz_eqb) a a = true.
Proof. apply opt_eqb_refl, opt_eqb_refl, oz_eqb_refl. Qed.
Lemma acc_eqb_eq a b : acc_eqb a b = true -> a = b.
Proof.
  destruct a as [[a1 a2] a3], b as [[b1 b2] b3]. unfold acc_eqb. intros H.
  apply andb_true_iff in H. destruct H as [H H3]. apply andb_true_iff in H. destruct H as [H1 H2].
  pose proof (opt_eqb_eq _ (opt_eqb_eq _ oz_eqb_eq)) as R.
  apply R in H1. apply R in H2. apply R in H3. congruence.
Qed.

(* ---------- the list of accessor triples follows the states ---------- *)
Definition accs_of (s : mstate (option Z)) : acc3 := (acc_min s, acc_median s, acc_max s).
Lemma model_accs_spec s xs sf d : oexec (Median.filter nleb) s xs = Some sf ->
  length (model_accs s xs) = S (length xs) /\
  forall k, k <= length xs -> exists sk, oexec (Median.filter nleb) s (firstn k xs) = Some sk /\
                                         nth k (model_accs s xs) d = accs_of sk.
Proof.
  revert s; induction xs as [|x xs IH]; intros s H.
  - split; [reflexivity|]. intros k Hk. simpl in Hk. assert (k = 0) by lia. subst k.
    exists s. split; reflexivity.
  - cbn [oexec] in H. cbn [model_accs]. destruct (Median.filter nleb s x) as [[s' y]|] eqn:Es; [|discriminate].
    destruct (IH s' H) as [Hl Hk]. split; [simpl; rewrite Hl; reflexivity|].
    intros [|k] Hle.
    + exists s. split; reflexivity.
    + destruct (Hk k) as [sk [A B]]; [simpl in Hle; lia|].
      exists sk. split; [cbn [firstn oexec]; rewrite Es; exact A|exact B].
Qed.

Lemma In_lastn_firstn {A} n k (l : list A) x : In x (lastn n (firstn k l)) -> In x l.
Proof.
  unfold lastn. intros H.
  assert (H1 : In x (firstn k l)).
  { rewrite <- (firstn_skipn (length (firstn k l) - n) (firstn k l)). apply in_or_app. right. exact H. }
  rewrite <- (firstn_skipn k l). apply in_or_app. left. exact H1.
Qed.
Lemma window_no_nan n xs k : has_nan xs = false -> has_nan (window n xs k) = false.
Proof.
  unfold has_nan. intros H. destruct (existsb _ (window n xs k)) eqn:E; [|reflexivity].
  apply existsb_exists in E. destruct E as [x [Hx Hn]]. apply In_lastn_firstn in Hx.
  assert (E2 : existsb (fun x => negb (is_some x)) xs = true) by (apply existsb_exists; eauto). congruence.
Qed.

(* accessors of the model after sample k of a NaN-free run *)
Lemma model_accs_at n xs k : 0 < n -> has_nan xs = false -> k < length xs ->
  let w := window n xs k in
  nth (S k) (model_accs (init n) xs) (None, None, None) =
    (Some (Some (window_min nleb w None)), Some (Some (lower_median nleb w None)), Some (Some (nth k xs None))).
Proof.
  intros HN Hnan Hk w.
  destruct (reach _ nleb n HN xs) as [sf [rf [sof [Hef _]]]].
  destruct (model_accs_spec (init n) xs sf (None, None, None) Hef) as [_ Hacc].
  destruct (Hacc (S k)) as [sk [A B]]; [lia|]. rewrite B. clear B Hacc.
  set (hist := firstn k xs) in *. set (x := nth k xs None) in *.
  destruct (step_full _ nleb zsorted I zsorted_step n HN hist x) as [s [s' [ring' [sorted' [He [Hf [Iv Hz]]]]]]].
  assert (Ew : w = lastn n (hist ++ [x])).
  { unfold w, window, hist, x. rewrite (firstn_S_snoc xs k None) by exact Hk. reflexivity. }
  rewrite (firstn_S_snoc xs k None) in A by exact Hk. fold hist x in A.
  rewrite Proofs.Median.oexec_snoc, He, Hf in A. injection A as <-.
  pose proof (i_perm _ _ _ _ _ _ _ Iv) as Pm. rewrite <- Ew in Pm.
  pose proof (Inv_sorted_ne _ nleb n s' hist x ring' sorted' HN Iv) as Hne.
  pose proof (zsorted_is_isort sorted' w Hz Pm (window_no_nan n xs k Hnan)) as Es.
  unfold accs_of.
  rewrite (Inv_acc_min _ nleb n s' _ ring' sorted' None HN Iv Hne).
  rewrite (Inv_acc_median _ nleb n s' _ ring' sorted' None HN Iv Hne).
  rewrite (Inv_acc_max _ nleb n s' hist x ring' sorted' HN Iv).
  unfold window_min, lower_median. rewrite <- (Permutation_length Pm). rewrite <- Es. reflexivity.
Qed.

Lemma model_accs_first n xs : 0 < n -> exists r, model_accs (init n) xs = (Some None, Some None, Some None) :: r.
Proof.
  intros HN. destruct (acc_before_first (option Z) n HN) as [A [B C]].
  destruct xs; cbn [model_accs]; rewrite A, B, C; eexists; reflexivity.
Qed.

(* ---------- the model satisfies the boolean spec (max clause: inside the known class at worst) ---------- *)
Lemma model_spec17 n xs o m kn : 0 < n -> has_nan xs = false ->
  c17_spec n xs (model_accs (init n) xs) = (o, m, kn) -> o = true /\ kn = true.
Proof.
  intros HN Hnan H. unfold c17_spec in H. cbv zeta in H. injection H as <- _ <-.
  destruct (reach _ nleb n HN xs) as [sf [rf [sof [Hef _]]]].
  destruct (model_accs_spec (init n) xs sf (None, None, None) Hef) as [Hlen _].
  destruct (model_accs_first n xs HN) as [r Er].
  split.
  - rewrite Hlen, Nat.eqb_refl. rewrite Er at 1. cbn [andb].
    apply forallb_forall. intros t Ht. apply in_map_iff in Ht. destruct Ht as [k [<- Hin]].
    apply in_seq in Hin. rewrite (model_accs_at n xs k HN Hnan) by lia.
    cbn [fst snd]. rewrite !ooz_refl. reflexivity.
  - apply forallb_forall. intros t Ht. apply in_map_iff in Ht. destruct Ht as [k [<- Hin]].
    apply in_seq in Hin. rewrite (model_accs_at n xs k HN Hnan) by lia.
    cbn [fst snd]. rewrite ooz_refl, andb_true_r.
    destruct (oz_eqb (nth k xs None) (window_max nleb (window n xs k) None)) eqn:E.
    + apply oz_eqb_eq in E. rewrite <- E. rewrite ooz_refl. reflexivity.
    + apply orb_true_r.
Qed.

(* ---------- the checker ---------- *)
(* Side conditions, as for C02.  (a) 1 <= cN: every accessor of Median<T,0> panics (the model says so too), while
   the property wants Some None before the first sample.  (b) cN <= 1000: beyond that width [check] does not run
   the model and bit 1 cannot be raised. *)
Example C17_width_zero_flagged :
  N.land (code (check (mk 0 [] [] false [(None, None, None)]))) 3 = 2%N.
Proof. vm_compute. reflexivity. Qed.
Example C17_wide_not_compared :
  N.land (code (check (mk 1001 [] [] false []))) 3 = 2%N.
Proof. vm_compute. reflexivity. Qed.

Theorem C17_check_sound : forall c : case, 1 <= cN c -> wide (cN c) = false ->
  N.land (code (check c)) 3 <> 2%N.
Proof.
  intros c HN Hw. unfold check. rewrite Hw.
  destruct (has_nan (cxs c)) eqn:Hnan.
  - apply mkv_sound. reflexivity.
  - destruct (c17_spec (cN c) (cxs c) (caccs c)) as [[o m] kn] eqn:Es. cbn [code].
    destruct (list_eqb acc_eqb (model_accs (init (cN c)) (cxs c)) (caccs c)) eqn:Hm.
    + apply (list_eqb_eq acc_eqb acc_eqb_eq) in Hm. rewrite <- Hm in Es.
      destruct (model_spec17 _ _ _ _ _ HN Hnan Es) as [-> ->]. destruct m; vm_compute; discriminate.
    + destruct o, m, kn; vm_compute; discriminate.
Qed.
Print Assumptions C17_check_sound.
