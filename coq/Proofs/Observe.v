From Signalo Require Import Model.Smooth Base.Lincomb Spec.C06.

(* ======================= alpha-beta tracker ======================= *)
Section AB.
Variables alpha beta : Q.
Notation step := (ab_step alpha beta).

Theorem ab_first x : step ab_init x = ({| velocity := 0; abvalue := Some x |}, x).
Proof. reflexivity. Qed.

(* one step of the recurrence from any state that has seen a sample *)
Theorem ab_rec v st x :
  let s := {| velocity := v; abvalue := Some st |} in
  let x' := st + v in let r := x - x' in
  snd (step s x) == x' + alpha * r /\
  abvalue (fst (step s x)) = Some (snd (step s x)) /\
  velocity (fst (step s x)) == v + beta * r.
Proof. cbv zeta. unfold ab_step. cbn [abvalue velocity fst snd]. repeat split; try reflexivity; qsimp; ring. Qed.

(* data-independent weights: position = sum A_i z_i, velocity = sum B_i z_i *)
Fixpoint abw (n : nat) : list Q * list Q :=
  match n with
  | O => ([1], [0])
  | S n' => let '(A, B) := abw n' in
            let P := vadd A B in
            (scale (1 - alpha) P ++ [alpha], vadd B (scale (- beta) P) ++ [beta])
  end.

Lemma abw_length n : length (fst (abw n)) = S n /\ length (snd (abw n)) = S n.
Proof.
  induction n as [|n [IA IB]]; [split; reflexivity|].
  simpl. destruct (abw n) as [A B]. simpl in *.
  split; lens.
Qed.
Lemma abw_sums n : qsum (fst (abw n)) == 1 /\ qsum (snd (abw n)) == 0.
Proof.
  induction n as [|n [IA IB]]; [split; simpl; ring|].
  pose proof (abw_length n) as [LA LB].
  simpl. destruct (abw n) as [A B]. simpl in *.
  rewrite !qsum_app, qsum_scale, !qsum_vadd, ?qsum_scale, ?qsum_vadd, IA, IB
    by lens.
  simpl. split; ring.
Qed.

Lemma ab_affine_exec hist h :
  let s := exec step ab_init (hist ++ [h]) in
  exists p, abvalue s = Some p /\ p == dot (fst (abw (length hist))) (hist ++ [h]) /\
            velocity s == dot (snd (abw (length hist))) (hist ++ [h]).
Proof.
  cbv zeta. revert h. induction hist as [|h' hist IH] using rev_ind; intros h.
  - exists h. simpl. repeat split; ring.
  - destruct (IH h') as (p & Hv & Hp & Hvel).
    rewrite exec_snoc. set (s := exec step ab_init (hist ++ [h'])) in *.
    unfold ab_step. rewrite Hv. cbn [fst abvalue velocity].
    eexists; split; [reflexivity|].
    rewrite app_length, Nat.add_1_r. cbn [abw length].
    pose proof (abw_length (length hist)) as [LA LB].
    destruct (abw (length hist)) as [A B]. cbn [fst snd] in *.
    assert (LH : length (hist ++ [h']) = S (length hist)) by (rewrite app_length; simpl; lia).
    qsimp.
    rewrite !dot_app by lens.
    rewrite dot_vadd, !dot_scale, !dot_vadd, Hp, Hvel by lens.
    simpl. split; ring.
Qed.

Lemma ab_step_value_out s x : abvalue (fst (step s x)) = Some (snd (step s x)).
Proof. unfold ab_step. destruct (abvalue s); reflexivity. Qed.

Theorem ab_affine hist x :
  let A := fst (abw (length hist)) in
  length A = length (hist ++ [x]) /\ qsum A == 1 /\
  last_out step ab_init hist x == dot A (hist ++ [x]).
Proof.
  cbv zeta. pose proof (abw_length (length hist)) as [LA _]. pose proof (abw_sums (length hist)) as [SA _].
  split; [rewrite app_length; simpl; lia|]. split; [exact SA|].
  destruct (ab_affine_exec hist x) as (p & Hv & Hp & _).
  rewrite exec_snoc in Hv.
  unfold last_out. 
  rewrite ab_step_value_out in Hv. injection Hv as ->. exact Hp.
Qed.

(* hence: constants are reproduced exactly, and affine maps of the data commute with the filter *)
Theorem ab_const c k : last_out step ab_init (repeat c k) c == c.
Proof.
  destruct (ab_affine (repeat c k) c) as (L & S1 & E). rewrite E.
  replace (repeat c k ++ [c]) with (repeat c (S k)) in * by (rewrite <- repeat_cons; reflexivity).
  rewrite !repeat_length in *.
  rewrite (dot_repeat (fst (abw k)) c (S k) L), S1. ring.
Qed.
Theorem ab_affine_equivariant a b hist x :
  last_out step ab_init (map (fun z => a * z + b) hist) (a * x + b)
  == a * last_out step ab_init hist x + b.
Proof.
  destruct (ab_affine hist x) as (L & S1 & E).
  destruct (ab_affine (map (fun z => a * z + b) hist) (a * x + b)) as (L' & _ & E').
  rewrite E', E. rewrite map_length in *.
  replace (map (fun z => a * z + b) hist ++ [a * x + b]) with (map (fun z => a * z + b) (hist ++ [x]))
    by (rewrite map_app; reflexivity).
  rewrite dot_affine, S1 by exact L. ring.
Qed.
End AB.

Example ab_example : run (ab_step (1#2) (1#4)) ab_init [4; 8; 8] = [4; 6; 15#2].
Proof. vm_compute. reflexivity. Qed.

(* ======================= scalar Kalman filter ======================= *)
Definition params_of (c : k_cfg) : kparams := {| pr := kr c; pq := kq c; pa := ka c; pb := kb c; pc := kc c |}.

Lemma cdiv_some a b : ~ b == 0 -> exists d, cdiv a b = Some d /\ d == a / b.
Proof.
  intros H. unfold cdiv. destruct (Qeq_bool b 0) eqn:E.
  - apply Qeq_bool_iff in E. contradiction.
  - eexists; split; [reflexivity | apply rdiv_ok].
Qed.
Lemma cdiv_none a b : b == 0 -> cdiv a b = None.
Proof. intros H. unfold cdiv. apply Qeq_bool_iff in H. rewrite H. reflexivity. Qed.

(* base case: first estimate z/c, covariance q/c^2 (c <> 0; otherwise the code divides by zero) *)
Theorem kalman_first c z u : ~ kc c == 0 ->
  exists s v, k_process c k_init (z, u) = Some (s, v) /\ kvalue s = Some v /\
    v == fst (ref_init (params_of c) z) /\ cov s == snd (ref_init (params_of c) z).
Proof.
  intros Hc. unfold k_process, k_init. cbn [kvalue].
  destruct (cdiv_some z (kc c) Hc) as (d1 & E1 & D1).
  assert (Hc2 : ~ rmul (kc c) (kc c) == 0).
  { rewrite rmul_ok. intros H. apply Qmult_integral in H. tauto. }
  destruct (cdiv_some (kq c) (rmul (kc c) (kc c)) Hc2) as (d2 & E2 & D2).
  rewrite E1, E2. cbn [obind]. do 2 eexists. split; [reflexivity|]. cbn [kvalue cov].
  split; [reflexivity|]. unfold ref_init, params_of. cbn. rewrite D1, D2, rmul_ok. split; reflexivity.
Qed.

(* inductive step: from any state whose estimate and covariance agree (==) with the textbook's *)
Theorem kalman_step c s x0 x P z u :
  kvalue s = Some x0 -> x0 == x -> cov s == P ->
  ~ ref_den (params_of c) P == 0 ->
  exists s' v, k_process c s (z, u) = Some (s', v) /\ kvalue s' = Some v /\
    v == fst (ref_step (params_of c) (x, P) (z, u)) /\
    cov s' == snd (ref_step (params_of c) (x, P) (z, u)).
Proof.
  intros Hv Hx HP Hden. unfold k_process. rewrite Hv.
  set (pred_cov := radd (rmul (rmul (ka c) (cov s)) (ka c)) (kr c)).
  set (c2 := rmul (kc c) (kc c)).
  assert (Epc : pred_cov == ka c * ka c * P + kr c).
  { unfold pred_cov. rewrite radd_ok, !rmul_ok, HP. ring. }
  assert (Hd : ~ radd (rmul pred_cov c2) (kq c) == 0).
  { unfold c2. rewrite radd_ok, !rmul_ok, Epc. exact Hden. }
  destruct (cdiv_some (rmul pred_cov (kc c)) _ Hd) as (g & Eg & Dg).
  rewrite Eg. cbn [obind]. do 2 eexists. split; [reflexivity|]. cbn [kvalue cov].
  split; [reflexivity|].
  assert (Eg' : g == (ka c * ka c * P + kr c) * kc c / ((ka c * ka c * P + kr c) * (kc c * kc c) + kq c)).
  { rewrite Dg. unfold c2. rewrite radd_ok, !rmul_ok, Epc. reflexivity. }
  unfold ref_step, params_of. cbn [pr pq pa pb pc fst snd].
  unfold ref_den, params_of in Hden. cbn [pr pq pa pb pc] in Hden.
  split.
  - rok. rewrite Eg', Hx. reflexivity.
  - rok. rewrite Epc, Eg'. ring.
Qed.

(* a zero divisor is a panic in the model (Rust: division by zero) -- the guard is necessary *)
Theorem kalman_zero_divisor c z u : kc c == 0 -> k_process c k_init (z, u) = None.
Proof. intros H. unfold k_process, k_init. cbn [kvalue]. rewrite (cdiv_none z _ H). reflexivity. Qed.

(* whole streams, by induction: as long as no divisor of the textbook recursion vanishes, the model
   does not panic and its estimates and covariances are the textbook's *)
Fixpoint ref_run (p : kparams) (xP : Q * Q) (zus : list (Q * Q)) : list (Q * Q) :=
  match zus with [] => [] | zu :: r => let xP' := ref_step p xP zu in xP' :: ref_run p xP' r end.
Fixpoint ref_guard (p : kparams) (xP : Q * Q) (zus : list (Q * Q)) : Prop :=
  match zus with [] => True | zu :: r => ~ ref_den p (snd xP) == 0 /\ ref_guard p (ref_step p xP zu) r end.

Lemma ref_step_proper_unused : True. Proof. exact I. Qed.

Theorem kalman_run c zus : forall s x0 x P,
  kvalue s = Some x0 -> x0 == x -> cov s == P -> ref_guard (params_of c) (x, P) zus ->
  exists ys, orun (k_filter_ctl c) s zus = Some ys /\
    Forall2 (fun y r => y == fst r) ys (ref_run (params_of c) (x, P) zus).
Proof.
  induction zus as [|[z u] zus IH]; intros s x0 x P Hv Hx HP G.
  - exists []. split; [reflexivity | constructor].
  - destruct G as [G1 G2]. cbn [snd] in G1.
    destruct (kalman_step c s x0 x P z u Hv Hx HP G1) as (s' & v & E & Hv' & Ev & EP).
    cbn [orun]. unfold k_filter_ctl at 1. rewrite E.
    cbn [ref_run]. destruct (ref_step (params_of c) (x, P) (z, u)) as [rx rP] eqn:Er. cbn [fst snd] in *.
    destruct (IH s' v rx rP Hv' Ev EP G2) as (ys & Eys & F).
    rewrite Eys. exists (v :: ys). split; [reflexivity|]. constructor; [exact Ev | exact F].
Qed.

(* from a fresh filter: first sample initialises, then the recursion *)
Theorem kalman_stream c z0 u0 zus : ~ kc c == 0 ->
  ref_guard (params_of c) (ref_init (params_of c) z0) zus ->
  exists ys, orun (k_filter_ctl c) k_init ((z0, u0) :: zus) = Some ys /\
    Forall2 (fun y r => y == fst r) ys
            (ref_init (params_of c) z0 :: ref_run (params_of c) (ref_init (params_of c) z0) zus).
Proof.
  intros Hc G. destruct (kalman_first c z0 u0 Hc) as (s & v & E & Hv & Ev & EP).
  cbn [orun]. unfold k_filter_ctl at 1. rewrite E.
  destruct (ref_init (params_of c) z0) as [rx rP] eqn:Er. cbn [fst snd] in *.
  destruct (kalman_run c zus s v rx rP Hv Ev EP G) as (ys & Eys & F).
  rewrite Eys. exists (v :: ys). split; [reflexivity|]. constructor; [exact Ev | exact F].
Qed.

(* the measurement-only form is the control form with zero control *)
Theorem kalman_plain_is_zero_control c s z : k_filter c s z = k_filter_ctl c s (z, 0).
Proof. reflexivity. Qed.

(* ---- convexity: a = c = 1, b = 0, r >= 0, q > 0 ---- *)
Section KConvex.
Variable c : k_cfg.
Hypothesis Ha : ka c == 1.
Hypothesis Hb : kb c == 0.
Hypothesis Hc : kc c == 1.
Hypothesis Hr : 0 <= kr c.
Hypothesis Hq : 0 < kq c.

Definition KInv (s : k_st) (zs : list Q) : Prop :=
  0 <= cov s /\ match kvalue s with Some v => Conv zs v | None => zs = [] end.

Lemma kconv_step s zs z : KInv s zs ->
  exists s' v, k_filter c s z = Some (s', v) /\ kvalue s' = Some v /\ Conv (zs ++ [z]) v /\ 0 <= cov s'.
Proof.
  intros [HP Hv]. unfold k_filter, k_process.
  destruct (kvalue s) as [x|] eqn:Ev.
  - set (pred_cov := radd (rmul (rmul (ka c) (cov s)) (ka c)) (kr c)).
    set (c2 := rmul (kc c) (kc c)).
    assert (Epc : pred_cov == cov s + kr c).
    { unfold pred_cov. rewrite radd_ok, !rmul_ok, Ha. ring. }
    assert (Ppos : 0 <= pred_cov) by (rewrite Epc; lra).
    assert (Eden : radd (rmul pred_cov c2) (kq c) == pred_cov + kq c).
    { unfold c2. rewrite radd_ok, !rmul_ok, Hc. ring. }
    assert (Hd : ~ radd (rmul pred_cov c2) (kq c) == 0) by (rewrite Eden; lra).
    destruct (cdiv_some (rmul pred_cov (kc c)) _ Hd) as (g & Eg & Dg).
    rewrite Eg. cbn [obind]. do 2 eexists. split; [reflexivity|]. cbn [kvalue cov].
    split; [reflexivity|].
    assert (Eg' : g == pred_cov / (pred_cov + kq c)).
    { rewrite Dg, Eden, rmul_ok, Hc. field. lra. }
    assert (G0 : 0 <= g).
    { rewrite Eg'. apply Qle_shift_div_l; lra. }
    assert (G1 : g <= 1).
    { rewrite Eg'. apply Qle_shift_div_r; lra. }
    split.
    + apply (Conv_proper _ (x + (z - x) * g)).
      { rok. rewrite Ha, Hb, Hc. ring. }
      apply Conv_mix; auto; [apply Conv_weaken; auto | apply Conv_last].
    + rok. rewrite Hc.
      setoid_replace (pred_cov - g * 1 * pred_cov) with (pred_cov * (1 - g)) by ring.
      apply Qmult_le_0_compat; lra.
  - subst zs.
    assert (Hc0 : ~ kc c == 0) by (rewrite Hc; discriminate).
    destruct (cdiv_some z (kc c) Hc0) as (d1 & E1 & D1).
    assert (Hc2 : ~ rmul (kc c) (kc c) == 0) by (rewrite rmul_ok, Hc; discriminate).
    destruct (cdiv_some (kq c) _ Hc2) as (d2 & E2 & D2).
    rewrite E1, E2. cbn [obind]. do 2 eexists. split; [reflexivity|]. cbn [kvalue cov].
    split; [reflexivity|]. split.
    + apply (Conv_proper _ z); [rewrite D1, Hc; field | apply (Conv_last [] z)].
    + rewrite D2, rmul_ok, Hc. setoid_replace (kq c / (1 * 1)) with (kq c) by field. lra.
Qed.

Theorem kalman_convex zs : 
  exists ys s, orun (k_filter c) k_init zs = Some ys /\ oexec (k_filter c) k_init zs = Some s /\
    KInv s zs /\ length ys = length zs /\
    forall k y, nth_error ys k = Some y -> Conv (firstn (S k) zs) y.
Proof.
  induction zs as [|z zs IH] using rev_ind.
  - exists [], k_init. repeat split; try reflexivity. { simpl. apply Qle_refl. } intros [|k] y H; discriminate.
  - destruct IH as (ys & s & Er & Ee & I & L & Hy).
    destruct (kconv_step s zs z I) as (s' & v & E & Hv & Cv & HP).
    exists (ys ++ [v]), s'.
    destruct (orun_oexec_snoc (k_filter c) _ _ _ _ _ _ _ Er Ee E) as [A B].
    split; [exact A|]. split; [exact B|]. split; [split; [exact HP | rewrite Hv; exact Cv]|].
    split; [rewrite !app_length, L; reflexivity|].
    intros k y Hk. destruct (Nat.lt_ge_cases k (length ys)) as [Hlt|Hge].
    + rewrite nth_error_app1 in Hk by auto. rewrite firstn_app.
      replace (S k - length zs)%nat with 0%nat by lia. simpl. rewrite app_nil_r. apply Hy, Hk.
    + rewrite nth_error_app2 in Hk by auto.
      destruct (k - length ys)%nat as [|d] eqn:Ed; simpl in Hk; [|destruct d; discriminate].
      injection Hk as <-. rewrite firstn_all2 by (rewrite app_length; simpl; lia). exact Cv.
Qed.
End KConvex.

Example kalman_example :
  orun (k_filter {| kr := 1; kq := 1; ka := 1; kb := 0; kc := 1 |}) k_init [2; 4; 4] = Some [2; 10#3; 15#4] /\
  orun (k_filter_ctl {| kr := 1#2; kq := 2; ka := 1#2; kb := 1; kc := 2 |}) k_init [(2, 0); (4, 1)] = Some [1; 16#9].
Proof. vm_compute. split; reflexivity. Qed.
