(* C20 — no false alarm for the copy / wrapper checker of Check/C20.v.

   check_reg (registry entries, ce < 100).  The model comparison (bit 1) covers couts_hist, coutsA, coutsB.
   The spec (bit 2) compares coutsA / coutsB with the REFERENCE runs crefA / crefB (a fresh, unwrapped filter
   fed chist ++ continuation) and judges ccached (Cache::cached() after the history); none of these three
   recorded observations is compared with the model by `check`.  As for C12, "bit 1 clear" is completed by the
   side condition that these observations agree with the model too: crefA / crefB are what the model of the
   UNWRAPPED filter (inner_machine) returns, ccached is the `cached` component of the model state.  Under it the
   spec cannot fire, and this is where the property theorems do the work: a copy continues like the original and
   copies are independent (C20_copy_continues, C20_copies_independent: mclone / mguts are the identity), the Cache
   wrapper is transparent and remembers exactly the last output (C20_cache_transparent, C20_cache_remembers_last,
   re-proved here for the partial-output runner run_m), the unit wrapper is transparent (C20_unit_transparent).

   check_extra (ce >= 100: float exactness, source Cache).  These two kinds have NO model half: model_ok is the
   constant true, bit 1 can never be set, and bit 2 is the only judgement (for kind 101 it IS the comparison with
   the model observe_cache).  The statement "bit 2 without bit 1 is impossible" is therefore false for them by
   construction (C20_extra_alarm_100 / _101 below) and says nothing about false alarms; they are excluded. *)
From Coq Require Import NArith Lia.
From Signalo Require Import Check.Common Model.Registry Proofs.Registry Props.C20 Check.C12 Check.C20 Proofs.Sound_LibB.

(* ---------- a simulation between two machines carries over to run_m ---------- *)
Section Sim.
Variables (m m' : machine) (proj : St m -> St m').
Hypothesis Hstep : forall c s x,
  mstep m' c (proj s) x = match mstep m c s x with Some (s1, y) => Some (proj s1, y) | None => None end.
Lemma run_m_sim c xs : forall s,
  run_m m' c (proj s) xs = (fst (run_m m c s xs), option_map proj (snd (run_m m c s xs))).
Proof.
  induction xs as [|x xs IH]; intros s; cbn [run_m]; [reflexivity|].
  rewrite Hstep. destruct (mstep m c s x) as [[s1 y]|]; [|reflexivity].
  rewrite IH. destruct (run_m m c s1 xs) as [ys f]. reflexivity.
Qed.
End Sim.

Lemma run_m_length m c xs : forall s o s', run_m m c s xs = (o, Some s') -> length o = length xs.
Proof.
  induction xs as [|x xs IH]; intros s o s' H; cbn [run_m] in *.
  - injection H as <- _. reflexivity.
  - destruct (mstep m c s x) as [[s1 y]|]; [|discriminate].
    destruct (run_m m c s1 xs) as [ys f] eqn:E. injection H as <- ->. cbn [length]. f_equal. apply (IH _ _ _ E).
Qed.

(* Cache over any machine: the cached value after a run is the last output (the run_m form of
   C20_cache_remembers_last) *)
Lemma cache_run_last m c xs : forall s0 k0 o s1,
  run_m (m_cache m) c (s0, k0) xs = (o, Some s1) ->
  cached s1 = match o with [] => k0 | _ => Some (last o []) end.
Proof.
  induction xs as [|x xs IH]; intros s0 k0 o s1 H; cbn [run_m] in H.
  - injection H as <- <-. reflexivity.
  - cbn [mstep m_cache fst] in H. destruct (mstep m c s0 x) as [[s' y]|]; cbn [obind] in H; [|discriminate].
    destruct (run_m (m_cache m) c (s', Some y) xs) as [ys f] eqn:E. injection H as <- ->.
    rewrite (IH _ _ _ _ E). destruct ys as [|z ys]; reflexivity.
Qed.
Lemma cache_step_sim m c (s : St (m_cache m)) x :
  mstep m c (fst s) x = match mstep (m_cache m) c s x with Some (s1, y) => Some (fst s1, y) | None => None end.
Proof. cbn [mstep m_cache]. destruct (mstep m c (fst s) x) as [[s1 y]|]; reflexivity. Qed.

(* ---------- the unwrapped machine of a registry entry ---------- *)
(* 23 = Cache<Integrate>, 24 = Cache<Median>, 25 = UnitSystem<Integrate>; the harness builds the reference from
   "integrate" / "median3" for exactly these three (harness/src/props/reg.rs, exec20) and from the entry itself
   otherwise *)
Definition inner_machine (n : nat) : machine :=
  if (n =? 23)%nat then m_integrate else if (n =? 24)%nat then m_median else if (n =? 25)%nat then m_integrate
  else nth n registry m_mean.

Lemma inner_sim n : exists proj : St (nth n registry m_mean) -> St (inner_machine n),
  (forall c, proj (minit _ c) = minit _ c) /\
  (forall c s x, mstep (inner_machine n) c (proj s) x =
                 match mstep (nth n registry m_mean) c s x with Some (s1, y) => Some (proj s1, y) | None => None end).
Proof.
  unfold inner_machine.
  destruct (n =? 23)%nat eqn:E23; [apply Nat.eqb_eq in E23; subst n|].
  { change (nth 23 registry m_mean) with (m_cache m_integrate). exists fst. split; [reflexivity|].
    intros c s x. apply cache_step_sim. }
  destruct (n =? 24)%nat eqn:E24; [apply Nat.eqb_eq in E24; subst n|].
  { change (nth 24 registry m_mean) with (m_cache m_median). exists fst. split; [reflexivity|].
    intros c s x. apply cache_step_sim. }
  destruct (n =? 25)%nat eqn:E25; [apply Nat.eqb_eq in E25; subst n|].
  { change (nth 25 registry m_mean) with (m_unit m_integrate). exists (fun s => s). split; [reflexivity|].
    intros c s x. cbn [mstep m_unit]. destruct (mstep m_integrate c s x) as [[s1 y]|]; reflexivity. }
  exists (fun s => s). split; [reflexivity|].
  intros c s x. destruct (mstep _ c s x) as [[s1 y]|]; reflexivity.
Qed.

(* what the model says Cache::cached() returns after the history (None: the entry is not a Cache) *)
Definition cached_model (n : nat) (cfg : list Q) (hist : list (list Q)) : option (option (list Q)) :=
  if (n =? 23)%nat then
    match snd (run_m (m_cache m_integrate) cfg (minit (m_cache m_integrate) cfg) hist) with
    | Some s => Some (cached s) | None => None end
  else if (n =? 24)%nat then
    match snd (run_m (m_cache m_median) cfg (minit (m_cache m_median) cfg) hist) with
    | Some s => Some (cached s) | None => None end
  else None.

(* Side condition.
   (a) ce < 100: a registry entry (check_reg); see the header for the two extra kinds.
   (b) the recorded references are the model's: crefA / crefB are the outputs of the unwrapped machine, run from its
       fresh state over the history and then over the continuation, and the model does not panic on continuation B
       (the only continuation whose length the spec looks at).  If the model panics on the history, bit 1 is set
       anyway and nothing is asked.
   (c) the recorded cached() observation is the model's.
   Generated cases of a correct implementation satisfy them: the references come from fresh filters of the very
   types whose agreement with these models C02..C18 check, the harness only records full-length output lists when
   nothing panicked (otherwise cpanic is set and the statement is vacuous), continuation B is the reversed, shifted
   continuation A from the same panic-free input class, and cached() is None / the last output. *)
Definition wf (c : case) : bool :=
  (ce c <? 100)%nat &&
  (let m' := inner_machine (ce c) in
   match run_m m' (ccfg c) (minit m' (ccfg c)) (chist c) with
   | (_, Some s') =>
       let '(ra, _) := run_m m' (ccfg c) s' (ccontA c) in
       let '(rb, fb) := run_m m' (ccfg c) s' (ccontB c) in
       ll_eqb ra (crefA c) && ll_eqb rb (crefB c) && is_some fb
   | (_, None) => true
   end) &&
  opt_eqb (opt_eqb qlist_eqb) (ccached c) (cached_model (ce c) (ccfg c) (chist c)).

(* last output up to Qeq *)
Lemma tleq_last a b : tleq a b -> qleq (last a []) (last b []).
Proof.
  intros F. induction F as [|x y a b Hxy F IH]; [constructor|].
  destruct F as [|x' y' a b Hxy' F]; [exact Hxy|]. exact IH.
Qed.
Lemma cached_ok_transfer (oh rec : list (list Q)) (k : option (list Q)) :
  tleq oh rec ->
  opt_eqb qlist_eqb k (match oh with [] => None | _ => Some (last oh []) end) = true ->
  opt_eqb qlist_eqb k (match rec with [] => None | _ => Some (last rec []) end) = true.
Proof.
  intros F H. pose proof (tleq_last _ _ F) as L.
  destruct F as [|x y a b Hxy F]; [exact H|].
  destruct k as [k|]; [|discriminate]. cbn [opt_eqb] in *.
  apply qlist_eqb_iff. apply qlist_eqb_iff in H. etransitivity; [exact H | exact L].
Qed.

(* the cached clause, for one Cache entry *)
Lemma cached_clause m cfg hist oh s rec k :
  run_m (m_cache m) cfg (minit (m_cache m) cfg) hist = (oh, Some s) -> tleq oh rec ->
  opt_eqb (opt_eqb qlist_eqb) (Some k)
    (match snd (run_m (m_cache m) cfg (minit (m_cache m) cfg) hist) with Some s => Some (cached s) | None => None end) = true ->
  opt_eqb qlist_eqb k (match rec with [] => None | _ => Some (last rec []) end) = true.
Proof.
  intros E F H. rewrite E in H. cbn [snd opt_eqb] in H.
  apply (cached_ok_transfer oh rec k F).
  cbn [minit m_cache] in E. rewrite (cache_run_last _ _ _ _ _ _ _ E) in H. exact H.
Qed.

Lemma check_reg_sound c : wf c = true -> N.land (code (check_reg c)) 3 <> 2%N.
Proof.
  destruct c as [n cfg hist contA contB rh ra rb refA refB cch pan].
  unfold wf, check_reg. cbn [ce ccfg chist ccontA ccontB couts_hist coutsA coutsB crefA crefB ccached cpanic].
  intros Hwf. apply andb_prop in Hwf as [Hwf Hcached]. apply andb_prop in Hwf as [_ Href].
  destruct (inner_sim n) as (proj & Pinit & Pstep).
  set (m := nth n registry m_mean) in *. set (m' := inner_machine n) in *.
  destruct (run_m m cfg (minit m cfg) hist) as [oh f] eqn:Eh.
  apply mkv_sound. intros H.
  apply andb_prop in H as [H Hcont]. apply andb_prop in H as [Hp Hh].
  destruct f as [s|]; [|discriminate].
  unfold mclone, mguts in Hcont. apply andb_prop in Hcont as [HA HB].
  (* the unwrapped machine follows the registry machine *)
  rewrite <- Pinit, (run_m_sim m m' proj Pstep), Eh in Href. cbn [fst snd option_map] in Href.
  rewrite !(run_m_sim m m' proj Pstep) in Href.
  destruct (run_m m cfg s contA) as [xa fa]. destruct (run_m m cfg s contB) as [xb fb] eqn:EB.
  cbn [fst snd] in *.
  apply andb_prop in Href as [Href HsB]. apply andb_prop in Href as [HrA HrB].
  destruct fb as [sb|]; [|discriminate].
  unfold ll_eqb in *. apply tl_eqb_iff in Hh, HA, HB, HrA, HrB.
  rewrite Hp. cbn [andb].
  repeat (apply andb_true_intro; split).
  - apply tl_eqb_iff. etransitivity; [symmetry; exact HA | exact HrA].
  - apply tl_eqb_iff. etransitivity; [symmetry; exact HB | exact HrB].
  - destruct cch as [k|]; [|reflexivity].
    unfold cached_model in Hcached.
    destruct (n =? 23)%nat eqn:E23; [apply Nat.eqb_eq in E23; subst n|].
    { apply (cached_clause m_integrate cfg hist oh s rh k Eh Hh Hcached). }
    destruct (n =? 24)%nat eqn:E24; [apply Nat.eqb_eq in E24; subst n|].
    { apply (cached_clause m_median cfg hist oh s rh k Eh Hh Hcached). }
    discriminate.
  - apply Nat.eqb_eq. rewrite <- (Forall2_length' _ _ _ HB). apply (run_m_length _ _ _ _ _ _ EB).
Qed.

Theorem C20_check_sound : forall c : case, wf c = true -> N.land (code (check c)) 3 <> 2%N.
Proof.
  intros c Hwf. unfold check.
  assert (Hlt : (100 <=? ce c)%nat = false).
  { unfold wf in Hwf. apply andb_prop in Hwf as [Hwf _]. apply andb_prop in Hwf as [Hlt _].
    apply Nat.ltb_lt in Hlt. apply Nat.leb_gt. exact Hlt. }
  rewrite Hlt. apply check_reg_sound, Hwf.
Qed.
Print Assumptions C20_check_sound.

(* ---------- the two kinds without a model half: bit 2 alone is reachable by construction ---------- *)
(* 100: float original and copy disagree on the same continuation *)
Example C20_extra_alarm_100 : N.land (code (check (mk 100 [] [] [[1]] [[1]] [] [[1]] [[2]] [] [] None false))) 3 = 2%N.
Proof. vm_compute. reflexivity. Qed.
(* 101: source Cache over FromIter [3]: pull must observe Some 3, the recorded observation says None *)
Example C20_extra_alarm_101 : N.land (code (check (mk 101 [3] [[0]] [] [] [[]] [] [] [] [] None false))) 3 = 2%N.
Proof. vm_compute. reflexivity. Qed.

(* ---------- each conjunct of the side condition is needed (entry 23 = Cache<Integrate>, history [1]) ---------- *)
Example C20_ok : code (check (mk 23 [] [[1]] [[1]] [[2]] [[1]] [[2]] [[3]] [[2]] [[3]] (Some (Some [1])) false)) = 0%N
  /\ wf (mk 23 [] [[1]] [[1]] [[2]] [[1]] [[2]] [[3]] [[2]] [[3]] (Some (Some [1])) false) = true.
Proof. vm_compute. split; reflexivity. Qed.
(* the unwrapped reference of the implementation deviates: true alarm the model comparison does not look at *)
Example C20_alarm_ref : N.land (code (check (mk 23 [] [[1]] [[1]] [[2]] [[1]] [[2]] [[3]] [[2]] [[4]] (Some (Some [1])) false))) 3 = 2%N.
Proof. vm_compute. reflexivity. Qed.
(* cached() of the implementation deviates *)
Example C20_alarm_cached : N.land (code (check (mk 23 [] [[1]] [[1]] [[2]] [[1]] [[2]] [[3]] [[2]] [[3]] (Some None) false))) 3 = 2%N.
Proof. vm_compute. reflexivity. Qed.
(* the model panics on continuation B (entry 4 = median, width 0): everything recorded is truncated like the model,
   no panic flag; only the length clause fires *)
Example C20_alarm_model_panic : N.land (code (check (mk 4 [0] [] [] [[1]] [] [] [] [] [] None false))) 3 = 2%N.
Proof. vm_compute. reflexivity. Qed.
