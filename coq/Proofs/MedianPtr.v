(* Median proof, pointer layer: cyclic doubly linked list embedded in the buffer. *)
From Coq Require Import List Arith Lia Bool Permutation.
From Signalo Require Import Model.Median Proofs.MedianBase.
Import ListNotations.

Section Ptr.
Variable T : Type.
Notation node := (node T).
Implicit Types (b : list node) (ring : list nat).

Record LinkedI b ring : Prop := {
  lk_ne : ring <> [];
  lk_nd : NoDup ring;
  lk_rng : Forall (fun i => i < length b) ring;
  lk_nx : forall k, nx b (at_ ring k) = at_ ring (S k);
  lk_pv : forall k, pv b (at_ ring (S k)) = at_ ring k }.

Lemma LinkedI_intro b ring : ring <> [] -> NoDup ring -> Forall (fun i => i < length b) ring ->
  (forall k, k < length ring ->
     nx b (nth k ring 0) = at_ ring (S k) /\ pv b (at_ ring (S k)) = nth k ring 0) ->
  LinkedI b ring.
Proof.
  intros Hne Hnd Hr H.
  assert (Hl : length ring <> 0) by (destruct ring; [congruence|simpl; lia]).
  split; auto; intros k.
  - rewrite <- (at_S_mod ring k Hne). unfold at_ at 1.
    apply H. apply Nat.mod_upper_bound; auto.
  - rewrite <- (at_S_mod ring k Hne). unfold at_ at 2.
    apply H. apply Nat.mod_upper_bound; auto.
Qed.

Lemma linked_lt b ring i : LinkedI b ring -> In i ring -> i < length b.
Proof. intros L H. pose proof (lk_rng _ _ L) as F. rewrite Forall_forall in F. auto. Qed.

Lemma linked_nx_in b ring i : LinkedI b ring -> In i ring -> In (nx b i) ring.
Proof.
  intros L H. destruct (in_at _ _ H) as [k [_ <-]]. rewrite (lk_nx _ _ L).
  apply at_in. apply (lk_ne _ _ L).
Qed.

Lemma linked_pv_in b ring i : LinkedI b ring -> In i ring -> In (pv b i) ring.
Proof.
  intros L H. pose proof (lk_ne _ _ L) as Hne. destruct (in_at _ _ H) as [k [Hk <-]].
  assert (E : at_ ring k = at_ ring (S (k + length ring - 1))).
  { replace (S (k + length ring - 1)) with (k + length ring) by lia.
    symmetry. apply at_add_len; auto. }
  rewrite E, (lk_pv _ _ L). apply at_in; auto.
Qed.

(* rotation *)
Lemma at_rot1 a l k : at_ (l ++ [a]) k = at_ (a :: l) (S k).
Proof.
  unfold at_. rewrite app_length. simpl length. replace (length l + 1) with (S (length l)) by lia.
  set (n := S (length l)).
  assert (Hk : k mod n < n) by (apply Nat.mod_upper_bound; lia).
  replace (S k mod n) with (S (k mod n) mod n).
  2:{ replace (S (k mod n)) with (k mod n + 1) by lia. rewrite Nat.add_mod_idemp_l by lia.
      f_equal. lia. }
  rewrite mod_S_case by lia. destruct (Nat.eqb_spec (S (k mod n)) n) as [E|E].
  - rewrite app_nth2 by lia. replace (k mod n - length l) with 0 by lia. reflexivity.
  - rewrite app_nth1 by lia. reflexivity.
Qed.

Lemma LinkedI_rot1 b a l : LinkedI b (a :: l) -> LinkedI b (l ++ [a]).
Proof.
  intros L. split.
  - destruct l; discriminate.
  - eapply Permutation_NoDup; [apply Permutation_cons_append|]. apply (lk_nd _ _ L).
  - pose proof (lk_rng _ _ L) as F. inversion F; subst. apply Forall_app. split; auto.
  - intros k. rewrite !at_rot1. apply (lk_nx _ _ L).
  - intros k. rewrite !at_rot1. apply (lk_pv _ _ L).
Qed.

Lemma LinkedI_rot b l1 l2 : LinkedI b (l1 ++ l2) -> LinkedI b (l2 ++ l1).
Proof.
  revert l2; induction l1 as [|a l1 IH]; intros l2 L.
  - rewrite app_nil_r. exact L.
  - simpl in L. apply LinkedI_rot1 in L. rewrite <- app_assoc in L. apply IH in L.
    rewrite <- app_assoc in L. exact L.
Qed.

(* removing the first node of the ring *)
Lemma unlink_linked b c rest : LinkedI b (c :: rest) -> rest <> [] ->
  LinkedI (unlink b c) rest /\ (forall j, vl (unlink b c) j = if j =? c then None else vl b j).
Proof.
  intros L Hne.
  set (R := c :: rest) in *. set (n := length rest).
  assert (Hn : 0 < n) by (unfold n; destruct rest; [congruence|simpl; lia]).
  assert (HR : length R = S n) by reflexivity.
  assert (HRne : R <> []) by discriminate.
  pose proof (lk_nd _ _ L) as Hnd. inversion Hnd as [|? ? Hnotin Hnd']; subst.
  assert (Hc : c < length b) by (eapply linked_lt; [exact L|left; reflexivity]).
  assert (Hcat : at_ R 0 = c) by (rewrite at_0; auto).
  assert (Esucc : nx b c = nth 0 rest 0).
  { rewrite <- Hcat at 1. rewrite (lk_nx _ _ L). rewrite at_lt by (rewrite HR; lia). reflexivity. }
  assert (Epred : pv b c = nth (n - 1) rest 0).
  { assert (E : c = at_ R (S n)).
    { rewrite <- HR. rewrite at_len; auto. }
    rewrite E at 1. rewrite (lk_pv _ _ L). rewrite at_lt by (rewrite HR; lia).
    unfold R. destruct n; [lia|]. simpl. rewrite Nat.sub_0_r. reflexivity. }
  assert (Hs : nx b c < length b).
  { eapply linked_lt; [exact L|]. apply linked_nx_in; auto. left; reflexivity. }
  assert (Hp : pv b c < length b).
  { eapply linked_lt; [exact L|]. apply linked_pv_in; auto. left; reflexivity. }
  destruct (unlink_fields T b c Hc Hp Hs) as [Fnx [Fpv Fvl]].
  split; [|exact Fvl].
  assert (Hrest_in : forall k, k < n -> nth k rest 0 <> c).
  { intros k Hk E. apply Hnotin. rewrite <- E. apply nth_In. exact Hk. }
  assert (Hinj : forall i j, i < n -> j < n -> nth i rest 0 = nth j rest 0 -> i = j).
  { intros i j Hi Hj. apply (proj1 (NoDup_nth rest 0) Hnd'); auto. }
  assert (HatR : forall k, k < n -> nth k rest 0 = at_ R (S k)).
  { intros k Hk. rewrite at_lt by (rewrite HR; lia). reflexivity. }
  apply LinkedI_intro; auto.
  - pose proof (lk_rng _ _ L) as F. apply Forall_inv_tail in F. rewrite unlink_length. exact F.
  - intros k Hk. fold n in Hk. rewrite at_S_lt by exact Hk. fold n.
    destruct (Nat.eqb_spec (S k) n) as [E|E].
    + (* wrap: k = n-1 *)
      assert (k = n - 1) by lia. subst k. split.
      * rewrite Fnx. destruct (Nat.eqb_spec (nth (n - 1) rest 0) c) as [E1|E1];
          [exfalso; eapply Hrest_in; [|exact E1]; lia|].
        rewrite Epred, Nat.eqb_refl. exact Esucc.
      * rewrite Fpv. rewrite Esucc, Nat.eqb_refl. exact Epred.
    + split.
      * rewrite Fnx. destruct (Nat.eqb_spec (nth k rest 0) c) as [E1|E1];
          [exfalso; eapply Hrest_in; [|exact E1]; lia|].
        rewrite Epred. destruct (Nat.eqb_spec (nth k rest 0) (nth (n - 1) rest 0)) as [E2|E2];
          [apply Hinj in E2; lia|].
        rewrite (HatR k) by lia. rewrite (lk_nx _ _ L). rewrite at_lt by (rewrite HR; lia). reflexivity.
      * rewrite Fpv. rewrite Esucc.
        destruct (Nat.eqb_spec (nth (S k) rest 0) (nth 0 rest 0)) as [E2|E2];
          [apply Hinj in E2; lia|].
        destruct (Nat.eqb_spec (nth (S k) rest 0) c) as [E1|E1];
          [exfalso; eapply Hrest_in; [|exact E1]; lia|].
        rewrite (HatR (S k)) by lia. rewrite (lk_pv _ _ L). rewrite at_lt by (rewrite HR; lia). reflexivity.
Qed.

(* linking a fresh node before the first node of the ring *)
Lemma link_hd_linked b R c v : LinkedI b R -> ~ In c R -> c < length b ->
  LinkedI (link b c (nth 0 R 0) v) (c :: R) /\
  (forall j, vl (link b c (nth 0 R 0) v) j = if j =? c then Some v else vl b j).
Proof.
  intros L Hnotin Hc.
  pose proof (lk_ne _ _ L) as Hne. pose proof (lk_nd _ _ L) as Hnd.
  set (n := length R).
  assert (Hn : 0 < n) by (unfold n; destruct R; [congruence|simpl; lia]).
  set (cur := nth 0 R 0).
  assert (Hcur_in : In cur R) by (apply nth_In; exact Hn).
  assert (Hcur : cur < length b) by (eapply linked_lt; eauto).
  assert (Epred : pv b cur = nth (n - 1) R 0).
  { assert (E : cur = at_ R (S (n - 1))).
    { replace (S (n - 1)) with (length R) by (fold n; lia). rewrite at_len; auto. }
    rewrite E at 1. rewrite (lk_pv _ _ L). rewrite at_lt by (fold n; lia). reflexivity. }
  assert (Hp : pv b cur < length b).
  { eapply linked_lt; [exact L|]. apply linked_pv_in; auto. }
  destruct (link_fields T b c cur v Hc Hcur Hp) as [Fnx [Fpv Fvl]].
  split; [|exact Fvl].
  assert (HR_ne : forall k, k < n -> nth k R 0 <> c).
  { intros k Hk E. apply Hnotin. rewrite <- E. apply nth_In. exact Hk. }
  assert (Hinj : forall i j, i < n -> j < n -> nth i R 0 = nth j R 0 -> i = j).
  { intros i j Hi Hj. apply (proj1 (NoDup_nth R 0) Hnd); auto. }
  assert (HR' : length (c :: R) = S n) by reflexivity.
  apply LinkedI_intro.
  - discriminate.
  - constructor; auto.
  - rewrite link_length. constructor; auto. apply (lk_rng _ _ L).
  - intros k Hk. rewrite HR' in Hk. rewrite at_S_lt by (rewrite HR'; exact Hk). rewrite HR'.
    destruct k as [|k].
    + (* the new node *)
      change (nth 0 (c :: R) 0) with c.
      destruct (Nat.eqb_spec 1 (S n)) as [E|E]; [lia|].
      change (nth 1 (c :: R) 0) with cur. split.
      * rewrite Fnx, Nat.eqb_refl. reflexivity.
      * rewrite Fpv, Nat.eqb_refl. reflexivity.
    + change (nth (S k) (c :: R) 0) with (nth k R 0).
      assert (Hk' : k < n) by lia.
      destruct (Nat.eqb_spec (S (S k)) (S n)) as [E|E].
      * (* last old node: k = n-1 *)
        assert (k = n - 1) by lia. subst k.
        change (nth 0 (c :: R) 0) with c. split.
        -- rewrite Fnx. destruct (Nat.eqb_spec (nth (n - 1) R 0) c) as [E1|E1];
             [exfalso; eapply HR_ne; [|exact E1]; lia|].
           rewrite Epred, Nat.eqb_refl. reflexivity.
        -- rewrite Fpv. destruct (Nat.eqb_spec c cur) as [E1|E1];
             [exfalso; apply Hnotin; rewrite E1; exact Hcur_in|].
           rewrite Nat.eqb_refl. exact Epred.
      * change (nth (S (S k)) (c :: R) 0) with (nth (S k) R 0). split.
        -- rewrite Fnx. destruct (Nat.eqb_spec (nth k R 0) c) as [E1|E1];
             [exfalso; eapply HR_ne; [|exact E1]; lia|].
           rewrite Epred. destruct (Nat.eqb_spec (nth k R 0) (nth (n - 1) R 0)) as [E2|E2];
             [apply Hinj in E2; lia|].
           rewrite <- (at_lt R k) by (fold n; lia). rewrite (lk_nx _ _ L).
           rewrite at_lt by (fold n; lia). reflexivity.
        -- rewrite Fpv. unfold cur.
           destruct (Nat.eqb_spec (nth (S k) R 0) (nth 0 R 0)) as [E2|E2];
             [apply Hinj in E2; lia|].
           destruct (Nat.eqb_spec (nth (S k) R 0) c) as [E1|E1];
             [exfalso; eapply HR_ne; [|exact E1]; lia|].
           rewrite <- (at_lt R (S k)) by (fold n; lia). rewrite (lk_pv _ _ L).
           rewrite at_lt by (fold n; lia). reflexivity.
Qed.

(* linking a fresh node before position p (p = length: before the first node, i.e. at the end) *)
Lemma link_linked b ring c p v : LinkedI b ring -> ~ In c ring -> c < length b -> p <= length ring ->
  LinkedI (link b c (at_ ring p) v) (ins_at p c ring) /\
  (forall j, vl (link b c (at_ ring p) v) j = if j =? c then Some v else vl b j).
Proof.
  intros L Hnotin Hc Hp.
  pose proof (lk_ne _ _ L) as Hne.
  set (l1 := firstn p ring). set (l2 := skipn p ring).
  assert (Er : ring = l1 ++ l2) by (symmetry; apply firstn_skipn).
  assert (L1 : LinkedI b (l2 ++ l1)) by (apply LinkedI_rot; rewrite <- Er; exact L).
  assert (Ecur : at_ ring p = nth 0 (l2 ++ l1) 0).
  { destruct (Nat.eq_dec p (length ring)) as [E|E].
    - subst p. rewrite at_len by auto. unfold l2, l1. rewrite skipn_all, firstn_all. reflexivity.
    - rewrite at_lt by lia. rewrite Er at 1.
      assert (Hl1 : length l1 = p) by (unfold l1; rewrite firstn_length; lia).
      rewrite app_nth2 by lia. rewrite Hl1, Nat.sub_diag.
      assert (l2 <> []).
      { intros E2. apply (f_equal (@length nat)) in Er. rewrite app_length, E2 in Er. simpl in Er. lia. }
      destruct l2; [congruence|reflexivity]. }
  assert (Hnotin' : ~ In c (l2 ++ l1)).
  { intros H. apply Hnotin. rewrite Er. apply in_app_or in H. apply in_or_app. tauto. }
  destruct (link_hd_linked b (l2 ++ l1) c v L1 Hnotin' Hc) as [L2 Fvl].
  rewrite <- Ecur in L2, Fvl. split; [|exact Fvl].
  unfold ins_at. fold l1 l2.
  change (c :: l2 ++ l1) with ((c :: l2) ++ l1) in L2. apply LinkedI_rot in L2. exact L2.
Qed.

End Ptr.

Arguments LinkedI {T}.
