(* The generic models of Model/Generic.v, instantiated at the exact rationals, are the models that the
   theorems of Props/ are about: each step function is equal (Leibniz) to its rational counterpart.  The
   float and integer instances evaluated by the correspondence check therefore differ from the proved
   models in the arithmetic only, never in the structure of the computation. *)
From Signalo Require Import Base.QR Base.Arith Base.ListX Base.Opt Base.Machine.
From Signalo Require Import Model.Classify Model.Generic Model.Mean Model.Smooth Model.Convolve Model.Wavelet Model.MeanVar Model.Sinks.

Lemma gq_diff s x : g_diff_step Qar s x = diff_step s x.
Proof. reflexivity. Qed.
Lemma gq_int s x : g_int_step Qar s x = int_step s x.
Proof. reflexivity. Qed.
Lemma gq_ema w s x : g_ema_step Qar w s x = ema_step w s x.
Proof. reflexivity. Qed.

Definition xm_of (s : option Q * option Q * option Q) : xm_st :=
  let '(a, b, c) := s in {| mean_pre := a; mean_post := b; xmedian := c |}.
Lemma gq_xm c s x :
  (let '(s', y) := g_xm_step Qar (xpre c) (xmid c) (xpost c) s x in (xm_of s', y)) = xm_step c (xm_of s) x.
Proof. destruct s as [[a b] m]. reflexivity. Qed.

Definition ab_of (s : Q * option Q) : ab_st := {| velocity := fst s; abvalue := snd s |}.
Lemma gq_ab al be s x :
  (let '(s', y) := g_ab_step Qar al be s x in (ab_of s', y)) = ab_step al be (ab_of s) x.
Proof. destruct s as [v [st|]]; reflexivity. Qed.

Definition k_of (s : Q * option Q) : k_st := {| cov := fst s; kvalue := snd s |}.
Lemma gq_kalman c s zu :
  match g_k_process Qar (kr c) (kq c) (ka c) (kb c) (kc c) s zu with
  | Some (s', y) => Some (k_of s', y) | None => None end = k_process c (k_of s) zu.
Proof.
  destruct s as [p [x|]], zu as [z u]; unfold g_k_process, k_process, acdiv, cdiv; cbn [snd fst k_of kvalue cov Qar adivz adiv amul aadd asub].
  - destruct (Qeq_bool _ 0); reflexivity.
  - destruct (Qeq_bool (kc c) 0); [reflexivity|]. cbn [obind]. destruct (Qeq_bool _ 0); reflexivity.
Qed.

Definition mean_of (s : option Q * list Q * Q) : Mean.st :=
  let '(m, t, w) := s in {| Mean.mean := m; Mean.taps := t; Mean.weight := w |}.
Lemma gq_mean N s x :
  (let '(s', y) := g_mean_step Qar N s x in (mean_of s', y)) = Mean.step rdiv N false (mean_of s) x.
Proof.
  destruct s as [[m t] w]. unfold g_mean_step, Mean.step. cbn [mean_of Mean.mean Mean.taps Mean.weight].
  destruct (push_back N t x) as [t' [o|]]; reflexivity.
Qed.

Definition mvw_of (s : (option Q * list Q * Q) * (option Q * list Q * Q)) : mvst :=
  {| MeanVar.mv_mean := mean_of (fst s); MeanVar.mv_var := mean_of (snd s) |}.
Lemma gq_mvw N s x :
  (let '(s', y) := g_mvw_step Qar N s x in (mvw_of s', y)) = mvw_step N (mvw_of s) x.
Proof.
  destruct s as [[[m t] w] [[m2 t2] w2]]. unfold g_mvw_step, mvw_step, g_mean_step, Mean.step.
  cbn [mvw_of mean_of fst snd MeanVar.mv_mean MeanVar.mv_var Mean.mean Mean.taps Mean.weight].
  destruct (push_back N t x) as [t' [o|]]; destruct (push_back N t2 _) as [t2' [o2|]]; reflexivity.
Qed.
Lemma gq_mve w s x : g_mve_step Qar w s x = mve_step w s x.
Proof. reflexivity. Qed.

Lemma gq_conv_sum taps coeffs : g_conv_sum Qar taps coeffs = conv_sum taps coeffs.
Proof. reflexivity. Qed.
Lemma gq_conv n coeffs taps x : g_conv_step Qar n coeffs taps x = conv_step n coeffs taps x.
Proof. reflexivity. Qed.
Lemma gq_normalized coeffs : g_normalized Qar coeffs = normalized coeffs.
Proof. reflexivity. Qed.
Lemma gq_ana n low high s x : g_ana_step Qar n low high s x = ana_step n low high s x.
Proof. reflexivity. Qed.
Lemma gq_syn n low high s lh : g_syn_step Qar n low high s lh = syn_step n low high s lh.
Proof. reflexivity. Qed.

Lemma gq_sum s x : g_sum_step Qar s x = sum_step s x.
Proof. reflexivity. Qed.
Lemma gq_smean s x : g_smean_step Qar s x = mean_step s x.
Proof. reflexivity. Qed.
Definition mv_of (s : option (Q * Q * Q)) : option mv :=
  match s with Some (c, m, v) => Some {| mv_count := c; Sinks.mv_mean := m; mv_m2 := v |} | None => None end.
Lemma gq_smv s x : (let '(s', y) := g_smv_step Qar s x in (mv_of s', y)) = mv_step (mv_of s) x.
Proof. destruct s as [[[c m] v]|]; reflexivity. Qed.
Lemma gq_smv_fin s : g_smv_fin Qar s = mv_fin (mv_of s).
Proof. destruct s as [[[c m] v]|]; reflexivity. Qed.

Lemma gq_sbounds s x : g_sbounds_step Qar s x = bounds_step s x.
Proof. reflexivity. Qed.
Lemma gq_sbounds_fin s : g_sbounds_fin s = bounds_fin s.
Proof. reflexivity. Qed.
Lemma gq_stat s x : (let '((sb, sm), y) := g_stat_step Qar s x in ((sb, mv_of sm), y)) = stat_step (fst s, mv_of (snd s)) x.
Proof. destruct s as [[a b] [[[c m] v]|]]; reflexivity. Qed.
Lemma gq_stat_fin s : g_stat_fin Qar s = stat_fin (fst s, mv_of (snd s)).
Proof. destruct s as [[[a|] [b|]] [[[c m] v]|]]; reflexivity. Qed.
Lemma gq_smean_fin s : g_smean_fin s = mean_fin s.
Proof. reflexivity. Qed.
Lemma gq_last s x : g_last_sink s x = last_sink s x.
Proof. reflexivity. Qed.
Lemma gq_collect s x : g_collect_step s x = collect_step s x.
Proof. reflexivity. Qed.
Lemma gq_smin s x : g_smin_step Qar s x = min_step s x.
Proof. reflexivity. Qed.
Lemma gq_smax s x : g_smax_step Qar s x = max_step s x.
Proof. reflexivity. Qed.
(* the classifier models read `input > hi` as `negb (hi >= input)`: at the rationals the two coincide *)
Lemma gq_schmitt {U} lo hi (outs : U * U) on x :
  g_schmitt_step Qar lo hi outs on x = schmitt_step qleb lo hi outs on x.
Proof. reflexivity. Qed.

(* Hampel's model lives over the canonical rationals Qc *)
From Coq Require Import Qcanon Qcabs.
From Signalo Require Import Model.Hampel.
Definition Qcar : arith Qc :=
  {| aadd := Qcplus; asub := Qcminus; amul := Qcmult; adiv := Qcdiv; adivz := fun b => Qeq_bool b 0;
     azero := Q2Qc 0; aone := Q2Qc 1; aabs := Qcabs; aneg := Qcopp; altb := qcltb; aleb := qcleb;
     aeqb := fun a b => Qeq_bool a b; acmp := fun a b => Some (a ?= b)%Qc; aiszero := fun b => Qeq_bool b 0 |}.
Lemma gq_hampel thr s x : g_hampel_step Qcar mad_factor thr s x = hampel_step thr s x.
Proof. reflexivity. Qed.

(* The freshly constructed states of the generic models, at the rationals, are the initial states of the registry
   machines of C12 / C20, and every registry `reset` returns to them. *)
From Signalo Require Model.Registry Model.Bounds.
Import Registry.
Lemma gq_init_differentiate c s : g_diff_init = minit m_differentiate c /\ mreset m_differentiate c s = minit m_differentiate c. Proof. split; reflexivity. Qed.
Lemma gq_init_integrate c s : g_int_init Qar = minit m_integrate c /\ mreset m_integrate c s = minit m_integrate c. Proof. split; reflexivity. Qed.
Lemma gq_init_exp_mean c s : g_ema_init = minit m_exp_mean c /\ mreset m_exp_mean c s = minit m_exp_mean c. Proof. split; reflexivity. Qed.
Lemma gq_init_exp_median c s : xm_of g_xm_init = minit m_exp_median c /\ mreset m_exp_median c s = minit m_exp_median c. Proof. split; reflexivity. Qed.
Lemma gq_init_alpha_beta c s : ab_of (g_ab_init Qar) = minit m_alpha_beta c /\ mreset m_alpha_beta c s = minit m_alpha_beta c. Proof. split; reflexivity. Qed.
Lemma gq_init_kalman c s : k_of (g_k_init Qar) = minit m_kalman c /\ mreset m_kalman c s = minit m_kalman c. Proof. split; reflexivity. Qed.
Lemma gq_init_mean c s : mean_of (g_mean_init Qar) = minit m_mean c /\ mreset m_mean c s = minit m_mean c. Proof. split; reflexivity. Qed.
Lemma gq_init_mean_variance c s : mvw_of (g_mvw_init Qar) = minit m_mean_variance c /\ mreset m_mean_variance c s = minit m_mean_variance c. Proof. split; reflexivity. Qed.
Lemma gq_init_exp_mean_variance c s : g_mve_init = minit m_exp_mean_variance c /\ mreset m_exp_mean_variance c s = minit m_exp_mean_variance c. Proof. split; reflexivity. Qed.
Lemma gq_init_convolve c s : g_conv_init = minit m_convolve c /\ mreset m_convolve c s = minit m_convolve c. Proof. split; reflexivity. Qed.
Lemma gq_init_delay c s : g_conv_init = minit m_delay c /\ mreset m_delay c s = minit m_delay c. Proof. split; reflexivity. Qed.
Lemma gq_init_analyze c s : g_wav_init = minit m_analyze c /\ mreset m_analyze c s = minit m_analyze c. Proof. split; reflexivity. Qed.
Lemma gq_init_synthesize c s : g_wav_init = minit m_synthesize c /\ mreset m_synthesize c s = minit m_synthesize c. Proof. split; reflexivity. Qed.
Lemma gq_init_max c s : Bounds.init = minit m_max c /\ mreset m_max c s = minit m_max c. Proof. split; reflexivity. Qed.
Lemma gq_init_min c s : Bounds.init = minit m_min c /\ mreset m_min c s = minit m_min c. Proof. split; reflexivity. Qed.
Lemma gq_init_bounds c s : (Bounds.init, Bounds.init) = minit m_bounds c /\ mreset m_bounds c s = minit m_bounds c. Proof. split; reflexivity. Qed.
Lemma gq_init_schmitt c s : false = minit m_schmitt c /\ mreset m_schmitt c s = minit m_schmitt c. Proof. split; reflexivity. Qed.
Lemma gq_init_debounce c s : 0%N = minit m_debounce c /\ mreset m_debounce c s = minit m_debounce c. Proof. split; reflexivity. Qed.
Lemma gq_init_slopes c s : None = minit m_slopes c /\ mreset m_slopes c s = minit m_slopes c. Proof. split; reflexivity. Qed.
Lemma gq_init_peaks c s : (None, None) = minit m_peaks c /\ mreset m_peaks c s = minit m_peaks c. Proof. split; reflexivity. Qed.
Lemma gq_reset_threshold c s : mreset m_threshold c s = s. Proof. reflexivity. Qed.
Lemma gq_reset_cache m c s : mreset (m_cache m) c s = (mreset m c (fst s), None). Proof. reflexivity. Qed.
