(* C18 — "no false alarm": the checker of Check/C18.v can never raise the spec alarm (bit 2) on recorded outputs
   that agree (up to Qeq) with the Hampel model (bit 1 clear).  No condition on the threshold is needed: for a
   negative threshold the decision degenerates but still satisfies all three clauses. *)
From Coq Require Import List Arith Lia Bool Permutation QArith Qabs Qreduction Qcanon Qcabs Lqa.
From Signalo Require Import Base.QR Base.Machine Base.ListX Base.Report Spec.C02 Model.Median Model.Hampel.
From Signalo Require Import Proofs.MedianSort Proofs.Median Proofs.Hampel.
From Signalo Require Import Check.Common Check.C18.
From Signalo Require Proofs.Sound_C02.
Import ListNotations.
Local Open Scope nat_scope.

Notation mkv_sound := Sound_C02.mkv_sound.

(* ---------- order statistics commute with an order-preserving map ---------- *)
Section IsortMap.
Context {A B : Type}.
Variable f : A -> B.
Variable leA : A -> A -> bool.
Variable leB : B -> B -> bool.
Hypothesis Hle : forall a b, leB (f a) (f b) = leA a b.
Lemma sinsert_map x l : sinsert B leB (f x) (map f l) = map f (sinsert A leA x l).
Proof.
  induction l as [|y l IH]; simpl; [reflexivity|]. rewrite Hle.
  destruct (leA x y); [reflexivity|]. simpl. rewrite IH. reflexivity.
Qed.
Lemma isort_map l : isort leB (map f l) = map f (isort leA l).
Proof. induction l as [|a l IH]; simpl; [reflexivity|]. rewrite IH. apply sinsert_map. Qed.
Lemma lower_median_map w d d' : w <> [] -> lower_median leB (map f w) d' = f (lower_median leA w d).
Proof.
  intros Hne. unfold lower_median. rewrite isort_map, map_length.
  assert (Hlt : (length w - 1) / 2 < length (isort leA w)).
  { rewrite (isort_length A leA). assert (0 < length w) by (destruct w; [congruence|simpl; lia]).
    apply Nat.div_lt_upper_bound; lia. }
  rewrite (nth_indep _ d' (f d)) by (rewrite map_length; exact Hlt). apply map_nth.
Qed.
Lemma window_min_map w d d' : w <> [] -> window_min leB (map f w) d' = f (window_min leA w d).
Proof.
  intros Hne. unfold window_min. rewrite isort_map. pose proof (isort_length A leA w) as L.
  destruct (isort leA w) as [|a r]; [|reflexivity]. destruct w; [congruence|discriminate].
Qed.
End IsortMap.

Lemma lastn_map {A B} (f : A -> B) n l : lastn n (map f l) = map f (lastn n l).
Proof. unfold lastn. rewrite map_length. apply skipn_map. Qed.

(* ---------- Qc versus Q ---------- *)
Local Open Scope Q_scope.
Lemma this_Q2Qc q : this (Q2Qc q) == q.
Proof. apply Qred_correct. Qed.
Lemma this_minus (a b : Qc) : this (a - b)%Qc == this a - this b.
Proof. unfold Qcminus, Qcplus, Qcopp. cbn [this Q2Qc]. rewrite !Qred_correct. reflexivity. Qed.
Lemma this_mult (a b : Qc) : this (a * b)%Qc == this a * this b.
Proof. unfold Qcmult. cbn [this Q2Qc]. apply Qred_correct. Qed.
Lemma this_abs (a : Qc) : this (Qcabs a) = Qabs (this a).
Proof. reflexivity. Qed.
Lemma qcleb_Q2Qc a b : qcleb (Q2Qc a) (Q2Qc b) = qleb a b.
Proof.
  unfold qcleb, qleb. apply eq_true_iff_eq. rewrite !Qle_bool_iff. cbn [this Q2Qc]. rewrite !Qred_correct. reflexivity.
Qed.
Lemma qltb_true a b : qltb a b = true -> a < b.
Proof.
  unfold qltb. intros H. apply negb_true_iff in H. apply Qnot_le_lt. intros C. apply Qle_bool_iff in C. congruence.
Qed.
Lemma qltb_false a b : qltb a b = false -> b <= a.
Proof. unfold qltb. intros H. apply negb_false_iff in H. apply Qle_bool_iff. exact H. Qed.
Lemma qeqb_true a b : a == b -> qeqb a b = true.
Proof. intros H. apply Qeq_bool_iff. exact H. Qed.
Lemma Qabs_zero q : Qabs q == 0 -> q == 0.
Proof.
  intros H. pose proof (Qle_Qabs q) as H1. pose proof (Qle_Qabs (- q)) as H2. rewrite Qabs_opp in H2.
  rewrite H in H1, H2. lra.
Qed.

Lemma qlist_eqb_nth a b : qlist_eqb a b = true -> length a = length b /\ forall k, nth k a 0 == nth k b 0.
Proof.
  revert b; induction a as [|x a IH]; intros [|y b]; simpl; intros H; try discriminate.
  - split; [reflexivity|]. intros [|k]; reflexivity.
  - apply andb_true_iff in H. destruct H as [H1 H2]. apply Qeq_bool_iff in H1.
    destruct (IH b H2) as [Hl Hk]. split; [congruence|]. intros [|k]; [exact H1|apply Hk].
Qed.

(* ---------- the decision, read in Q ---------- *)
Lemma hampel_out_Q (thr mn med mx x : Qc) (qthr qmn qmed qmx qx qf : Q) :
  this thr == qthr -> this mn == qmn -> this med == qmed -> this mx == qmx -> this x == qx -> this mad_factor == qf ->
  exists M : Q,
  Qabs (qmed - qmn) <= M /\ Qabs (qmx - qmed) <= M /\
  (M == Qabs (qmed - qmn) \/ M == Qabs (qmx - qmed)) /\
  ((hampel_out thr mn med mx x = med /\ M * qf * qthr < Qabs (qx - qmed)) \/
   (hampel_out thr mn med mx x = x /\ Qabs (qx - qmed) <= M * qf * qthr)).
Proof.
  intros Tthr Tmn Tmed Tmx Tx Tf. unfold hampel_out.
  set (mad := if qcltb (Qcabs (med - mn)) (Qcabs (mx - med)) then Qcabs (mx - med) else Qcabs (med - mn)).
  exists (this mad).
  assert (E1 : this (Qcabs (med - mn)) == Qabs (qmed - qmn)) by (rewrite this_abs, this_minus, Tmed, Tmn; reflexivity).
  assert (E2 : this (Qcabs (mx - med)) == Qabs (qmx - qmed)) by (rewrite this_abs, this_minus, Tmed, Tmx; reflexivity).
  assert (Hmad : Qabs (qmed - qmn) <= this mad /\ Qabs (qmx - qmed) <= this mad /\
                 (this mad == Qabs (qmed - qmn) \/ this mad == Qabs (qmx - qmed))).
  { unfold mad. destruct (qcltb (Qcabs (med - mn)) (Qcabs (mx - med))) eqn:E.
    - apply qcltb_iff in E. unfold Qclt in E. rewrite E1, E2 in E. rewrite E2.
      split; [lra|]. split; [lra|]. right. reflexivity.
    - apply qcltb_false_iff in E. unfold Qcle in E. rewrite E1, E2 in E. rewrite E1.
      split; [lra|]. split; [lra|]. left. reflexivity. }
  destruct Hmad as [H1 [H2 H3]]. split; [exact H1|]. split; [exact H2|]. split; [exact H3|].
  assert (E3 : this (mad * mad_factor * thr)%Qc == this mad * qf * qthr)
    by (rewrite !this_mult, Tf, Tthr; reflexivity).
  assert (E4 : this (Qcabs (x - med)) == Qabs (qx - qmed)) by (rewrite this_abs, this_minus, Tx, Tmed; reflexivity).
  destruct (qcltb (mad * mad_factor * thr) (Qcabs (x - med))) eqn:E.
  - left. split; [reflexivity|]. apply qcltb_iff in E. unfold Qclt in E. rewrite E3, E4 in E. exact E.
  - right. split; [reflexivity|]. apply qcltb_false_iff in E. unfold Qcle in E. rewrite E3, E4 in E. exact E.
Qed.

Lemma clause2 thr f mn med M dev : 0 <= f -> mn <= med -> med - mn <= M -> 0 <= dev ->
  dev <= thr * f * (med - mn) -> M * f * thr < dev -> dev == 0.
Proof.
  intros Hf Hm HM Hd H1 H2. apply Qle_antisym; [|exact Hd].
  destruct (Qlt_le_dec thr 0) as [Ht|Ht].
  - assert (0 <= (- thr) * f * (med - mn)).
    { apply Qmult_le_0_compat; [apply Qmult_le_0_compat|]; lra. }
    lra.
  - assert ((med - mn) * (f * thr) <= M * (f * thr)).
    { apply Qmult_le_compat_r; [exact HM|]. apply Qmult_le_0_compat; lra. }
    lra.
Qed.
Lemma clause3 thr f M maxd dev : 0 <= f -> 0 <= M -> M <= maxd -> 0 <= dev ->
  thr * f * maxd < dev -> dev <= M * f * thr -> dev == 0.
Proof.
  intros Hf HM Hmax Hd H1 H2. apply Qle_antisym; [|exact Hd].
  destruct (Qlt_le_dec thr 0) as [Ht|Ht].
  - assert (0 <= M * f * (- thr)).
    { apply Qmult_le_0_compat; [apply Qmult_le_0_compat|]; lra. }
    lra.
  - assert (M * (f * thr) <= maxd * (f * thr)).
    { apply Qmult_le_compat_r; [exact Hmax|]. apply Qmult_le_0_compat; lra. }
    lra.
Qed.

Lemma maxdev_ge w med v : In v w -> Qabs (v - med) <= maxdev w med.
Proof.
  induction w as [|a w IH]; intros H; [destruct H|]. unfold maxdev. cbn [fold_right]. fold (maxdev w med).
  cbv zeta. destruct (qltb (maxdev w med) (Qabs (a - med))) eqn:E.
  - apply qltb_true in E. destruct H as [->|H]; [lra|]. specialize (IH H). lra.
  - apply qltb_false in E. destruct H as [->|H]; [lra|]. exact (IH H).
Qed.
Lemma factor_ok : this mad_factor == factor.
Proof. unfold mad_factor. apply this_Q2Qc. Qed.
Lemma factor_nonneg : 0 <= factor.
Proof. unfold factor. unfold Qle. simpl. lia. Qed.

(* ---------- one recorded sample against the spec ---------- *)
Local Open Scope nat_scope.
Lemma nth_map_this ys k : nth k (map (fun y : Qc => this y) ys) 0%Q = this (nth k ys (Q2Qc 0)).
Proof. apply (map_nth (fun y : Qc => this y) ys (Q2Qc 0)). Qed.
Lemma nth_map_Q2Qc l k : nth k (map Q2Qc l) (Q2Qc 0) = Q2Qc (nth k l 0%Q).
Proof. apply map_nth. Qed.
Lemma spec_at_model c ys k : 1 <= cN c -> k < length (cxs c) ->
  orun (hampel_step (Q2Qc (cthr c))) (init (cN c)) (map Q2Qc (cxs c)) = Some ys ->
  qlist_eqb (map (fun y : Qc => this y) ys) (cys c) = true -> spec_at c k = true.
Proof.
  intros HN Hk Ho Heq.
  unfold spec_at. set (x := qnth k (cxs c)). set (o := qnth k (cys c)).
  assert (Hgoal : forall med mn w,
    (lower_median qleb w 0%Q = med -> window_min qleb w 0%Q = mn -> lastn (cN c) (firstn k (cxs c)) = w -> 
     match k with O => qeqb o x | S _ =>
      (qeqb o x || qeqb o med) &&
      (negb (qleb (Qabs (x - med)) (cthr c * factor * (med - mn))) || qeqb o x) &&
      (negb (qltb (cthr c * factor * maxdev w med) (Qabs (x - med))) || qeqb o med) end = true)); [|destruct k; [apply (Hgoal 0%Q 0%Q []); reflexivity|eapply Hgoal; reflexivity]].
  intros med mn w Emed Emn Ew.
  destruct (qlist_eqb_nth _ _ Heq) as [_ Hnth]. specialize (Hnth k).
  rewrite nth_map_this in Hnth.
  destruct (Sound_C02.orun_nth _ _ _ _ (Q2Qc 0) (Q2Qc 0) Ho) as [_ Hrun].
  destruct (Hrun k) as [s1 [s2 [A B]]]; [rewrite map_length; exact Hk|]. clear Hrun.
  rewrite nth_map_Q2Qc in B. fold (qnth k (cxs c)) in B. fold (qnth k (cys c)) in Hnth. fold x in B. fold o in Hnth.
  set (oc := nth k ys (Q2Qc 0)) in *.
  destruct k as [|k].
  - cbn [firstn oexec] in A. injection A as <-.
    destruct (hampel_first (cN c) (Q2Qc (cthr c)) (Q2Qc x) HN) as [s' F]. rewrite F in B. injection B as _ <-.
    apply qeqb_true. rewrite <- Hnth. apply this_Q2Qc.
  - set (pq := nth k (cxs c) 0%Q).
    assert (Efn : firstn (S k) (map Q2Qc (cxs c)) = map Q2Qc (firstn k (cxs c)) ++ [Q2Qc pq]).
    { rewrite (Sound_C02.firstn_S_snoc _ k (Q2Qc 0)) by (rewrite map_length; lia).
      rewrite firstn_map, nth_map_Q2Qc. reflexivity. }
    rewrite Efn in A.
    destruct (hampel_step_nonempty (Q2Qc (cthr c)) (cN c) (map Q2Qc (firstn k (cxs c))) (Q2Qc pq) (Q2Qc x) HN)
      as (s & s' & E & _ & F).
    rewrite E in A. injection A as <-. rewrite F in B. injection B as _ Eoc. clear F E.
    rewrite <- Efn in Eoc. rewrite firstn_map, lastn_map, Ew in Eoc.
    assert (Hpw : In pq w).
    { rewrite <- Ew. rewrite (Sound_C02.firstn_S_snoc _ k 0%Q) by lia. apply lastn_snoc_in. exact HN. }
    assert (Hne : w <> []) by (intros C; rewrite C in Hpw; destruct Hpw).
    rewrite (lower_median_map Q2Qc qleb qcleb qcleb_Q2Qc w 0%Q _ Hne) in Eoc.
    rewrite (window_min_map Q2Qc qleb qcleb qcleb_Q2Qc w 0%Q _ Hne) in Eoc. rewrite Emed, Emn in Eoc.
    assert (Hmn : (mn <= med)%Q).
    { pose proof (window_min_le_median Qc qcleb qcleb_total_order (map Q2Qc w) (Q2Qc 0)) as L.
      rewrite (lower_median_map Q2Qc qleb qcleb qcleb_Q2Qc w 0%Q _ Hne) in L.
      rewrite (window_min_map Q2Qc qleb qcleb qcleb_Q2Qc w 0%Q _ Hne) in L. rewrite Emed, Emn in L.
      assert (Hn : map Q2Qc w <> []) by (destruct w; [congruence|discriminate]).
      specialize (L Hn). apply qcleb_iff in L. unfold Qcle in L. rewrite !this_Q2Qc in L. exact L. }
    assert (Hmnw : In mn w) by (rewrite <- Emn; apply window_min_in; exact Hne).
    destruct (hampel_out_Q (Q2Qc (cthr c)) (Q2Qc mn) (Q2Qc med) (Q2Qc pq) (Q2Qc x) (cthr c) mn med pq x factor
                (this_Q2Qc _) (this_Q2Qc _) (this_Q2Qc _) (this_Q2Qc _) (this_Q2Qc _) factor_ok) as [M [H1 [H2 [H3 H4]]]].
    rewrite Eoc in H4.
    pose proof factor_nonneg as Hf.
    pose proof (Qabs_nonneg (x - med)) as Hd.
    assert (HM0 : (0 <= M)%Q) by (pose proof (Qabs_nonneg (med - mn)); lra).
    assert (HMmax : (M <= maxdev w med)%Q).
    { pose proof (maxdev_ge w med mn Hmnw) as G1. pose proof (maxdev_ge w med pq Hpw) as G2.
      rewrite Qabs_Qminus in G1. destruct H3 as [-> | ->]; assumption. }
    assert (HMlow : (med - mn <= M)%Q) by (pose proof (Qle_Qabs (med - mn)); lra).
    assert (Hox : oc = Q2Qc x -> (o == x)%Q) by (intros Eo; rewrite <- Hnth, Eo; apply this_Q2Qc).
    assert (Hom : oc = Q2Qc med -> (o == med)%Q) by (intros Eo; rewrite <- Hnth, Eo; apply this_Q2Qc).
    assert (Hzero : (Qabs (x - med) == 0)%Q -> (x == med)%Q) by (intros Z; apply Qabs_zero in Z; lra).
    apply andb_true_iff. split; [apply andb_true_iff; split|].
    + apply orb_true_iff. destruct H4 as [[Eo _]|[Eo _]].
      * right. apply qeqb_true. auto.
      * left. apply qeqb_true. auto.
    + destruct (qleb (Qabs (x - med)) (cthr c * factor * (med - mn))) eqn:Eq; [|reflexivity].
      cbn [negb orb]. apply qeqb_true. apply Qle_bool_iff in Eq.
      destruct H4 as [[Eo Hlt]|[Eo _]]; [|auto].
      rewrite (Hom Eo). symmetry. apply Hzero.
      apply (clause2 (cthr c) factor mn med M); assumption.
    + destruct (qltb (cthr c * factor * maxdev w med) (Qabs (x - med))) eqn:Eq; [|reflexivity].
      cbn [negb orb]. apply qeqb_true. apply qltb_true in Eq.
      destruct H4 as [[Eo _]|[Eo Hle]]; [auto|].
      rewrite (Hox Eo). apply Hzero.
      apply (clause3 (cthr c) factor M (maxdev w med)); assumption.
Qed.

(* the model never panics for N >= 1 *)
Lemma hampel_total N thr : 0 < N -> forall xs, exists ys, orun (hampel_step thr) (init N) xs = Some ys.
Proof.
  intros HN. apply Sound_C02.orun_total. intros hist x.
  destruct hist as [|p h _] using rev_ind.
  - destruct (hampel_first N thr x HN) as [s' F]. exists (init N), s', x. split; [reflexivity|exact F].
  - destruct (hampel_step_nonempty thr N h p x HN) as (s & s' & E & _ & F). eauto.
Qed.

(* ---------- the checker ---------- *)
(* Side condition 1 <= cN: Hampel<T,0> panics on the first sample (so does the model) and the property forbids
   panics, so for N = 0 an implementation that behaves like the model is flagged. *)
Example C18_width_zero_flagged :
  N.land (code (check (mk 0 1 [1%Q] [] true))) 3 = 2%N.
Proof. vm_compute. reflexivity. Qed.

Theorem C18_check_sound : forall c : case, 1 <= cN c -> N.land (code (check c)) 3 <> 2%N.
Proof.
  intros c HN. unfold check.
  destruct (hampel_total (cN c) (Q2Qc (cthr c)) HN (map Q2Qc (cxs c))) as [ys Ho].
  rewrite (Sound_C02.orun_partial_of_orun _ _ _ _ Ho).
  apply mkv_sound. intros Hm. apply andb_true_iff in Hm. destruct Hm as [Hp Hy].
  apply Bool.eqb_prop in Hp. rewrite <- Hp. cbn [negb andb].
  destruct (qlist_eqb_nth _ _ Hy) as [Hl _]. rewrite map_length in Hl.
  destruct (Sound_C02.orun_nth _ _ _ _ (Q2Qc 0) (Q2Qc 0) Ho) as [Hl' _]. rewrite map_length in Hl'.
  rewrite <- Hl, Hl', Nat.eqb_refl. cbn [andb].
  apply forallb_forall. intros k Hin. apply in_seq in Hin.
  apply (spec_at_model c ys k); [exact HN|lia|exact Ho|exact Hy].
Qed.
Print Assumptions C18_check_sound.
