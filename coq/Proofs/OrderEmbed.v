(* Order statistics - and therefore the moving median - commute with every order embedding of the sample type
   (a map f with  leb (f a) (f b) = leb a b : positive scaling, translation, any strictly increasing map). *)
From Coq Require Import List Arith Lia.
From Signalo Require Import Model.Median Spec.C02 Base.ListX Base.Machine Proofs.Median.
Import ListNotations.

(* ---------- order statistics commute with order embeddings ---------- *)
Section Embed.
Context {T : Type} (leb : T -> T -> bool) (f : T -> T).
Hypothesis Hf : forall a b, leb (f a) (f b) = leb a b.

Lemma sinsert_map x l : sinsert T leb (f x) (map f l) = map f (sinsert T leb x l).
Proof.
  induction l as [|y r IH]; [reflexivity|].
  cbn [map sinsert]. rewrite Hf. destruct (leb x y); [reflexivity|].
  cbn [map]. rewrite IH. reflexivity.
Qed.

Lemma isort_map l : isort leb (map f l) = map f (isort leb l).
Proof.
  induction l as [|x r IH]; [reflexivity|].
  cbn [map isort]. rewrite IH. apply sinsert_map.
Qed.

Lemma lower_median_map w d : lower_median leb (map f w) (f d) = f (lower_median leb w d).
Proof. unfold lower_median. rewrite isort_map, map_length. apply map_nth. Qed.

Lemma window_min_map w d : window_min leb (map f w) (f d) = f (window_min leb w d).
Proof. unfold window_min. rewrite isort_map. destruct (isort leb w); reflexivity. Qed.
End Embed.

Lemma lastn_map {A} (f : A -> A) n l : lastn n (map f l) = map f (lastn n l).
Proof. unfold lastn. rewrite map_length. apply skipn_map. Qed.


(* the moving median of the mapped stream is the mapped moving median *)
Lemma median_equivariant :
  forall (T : Type) (leb : T -> T -> bool), total_order leb ->
  forall f : T -> T, (forall a b, leb (f a) (f b) = leb a b) ->
  forall N, 0 < N -> forall hist x,
  exists s s' t t' y, oexec (Median.filter leb) (init N) hist = Some s /\ Median.filter leb s x = Some (s', y) /\
    oexec (Median.filter leb) (init N) (map f hist) = Some t /\ Median.filter leb t (f x) = Some (t', f y).
Proof.
  intros T leb Hto f Hf N HN hist x.
  destruct (median_lower T leb Hto N HN hist x) as (s & s' & E & F).
  destruct (median_lower T leb Hto N HN (map f hist) (f x)) as (t & t' & E2 & F2).
  exists s, s', t, t', (lower_median leb (lastn N (hist ++ [x])) x).
  split; [exact E|]. split; [exact F|]. split; [exact E2|].
  rewrite F2. f_equal. f_equal.
  replace (map f hist ++ [f x]) with (map f (hist ++ [x])) by (rewrite map_app; reflexivity).
  rewrite lastn_map. apply lower_median_map. exact Hf.
Qed.
