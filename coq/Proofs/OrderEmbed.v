(* Order statistics - and therefore the moving median - commute with every order embedding of the sample type
   (a map f with  leb (f a) (f b) = leb a b : positive scaling, translation, any strictly increasing map). *)
From Coq Require Import List Arith Lia.
From Signalo Require Import Model.Median Spec.C02 Base.ListX Base.Machine Proofs.Median.
Import ListNotations.

(* ---------- order statistics commute with order embeddings ---------- *)
Section Embed.
Context {T : Type} (leb : T -> T -> bool) (f : T -> T).
Hypothesis Hf : forall a b, leb (f a) (f b) = leb a b.

Lemma sinsert_map x l : sinsert T leb (f x) (map f l) = map f (sinsert T leb x l).
Proof.
  induction l as [|y r IH]; [reflexivity|].
  cbn [map sinsert]. rewrite Hf. destruct (leb x y); [reflexivity|].
  cbn [map]. rewrite IH. reflexivity.
Qed.

Lemma isort_map l : isort leb (map f l) = map f (isort leb l).
Proof.
  induction l as [|x r IH]; [reflexivity|].
  cbn [map isort]. rewrite IH. apply sinsert_map.
Qed.

Lemma lower_median_map w d : lower_median leb (map f w) (f d) = f (lower_median leb w d).
Proof. unfold lower_median. rewrite isort_map, map_length. apply map_nth. Qed.

Lemma window_min_map w d : window_min leb (map f w) (f d) = f (window_min leb w d).
Proof. unfold window_min. rewrite isort_map. destruct (isort leb w); reflexivity. Qed.
End Embed.

Lemma lastn_map {A} (f : A -> A) n l : lastn n (map f l) = map f (lastn n l).
Proof. unfold lastn. rewrite map_length. apply skipn_map. Qed.


(* the moving median of the mapped stream is the mapped moving median *)
Lemma median_equivariant :
  forall (T : Type) (leb : T -> T -> bool), total_order leb ->
  forall f : T -> T, (forall a b, leb (f a) (f b) = leb a b) ->
  forall N, 0 < N -> forall hist x,
  exists s s' t t' y, oexec (Median.filter leb) (init N) hist = Some s /\ Median.filter leb s x = Some (s', y) /\
    oexec (Median.filter leb) (init N) (map f hist) = Some t /\ Median.filter leb t (f x) = Some (t', f y).
Proof.
  intros T leb Hto f Hf N HN hist x.
  destruct (median_lower T leb Hto N HN hist x) as (s & s' & E & F).
  destruct (median_lower T leb Hto N HN (map f hist) (f x)) as (t & t' & E2 & F2).
  exists s, s', t, t', (lower_median leb (lastn N (hist ++ [x])) x).
  split; [exact E|]. split; [exact F|]. split; [exact E2|].
  rewrite F2. f_equal. f_equal.
  replace (map f hist ++ [f x]) with (map f (hist ++ [x])) by (rewrite map_app; reflexivity).
  rewrite lastn_map. apply lower_median_map. exact Hf.
Qed.

(* ---------- the moving maximum / minimum: the same, for antisymmetric total preorders ---------- *)
From Coq Require Import NArith.
From Signalo Require Import Model.Bounds Spec.C04 Proofs.Bounds.

Lemma is_max_map {T} (leb : T -> T -> bool) (f : T -> T) (Hf : forall a b, leb (f a) (f b) = leb a b) w y :
  is_max leb w y -> is_max leb (map f w) (f y).
Proof.
  intros [I M]. split; [apply in_map; exact I|].
  intros v Hv. apply in_map_iff in Hv. destruct Hv as (u & <- & Hu). rewrite Hf. apply M. exact Hu.
Qed.

Lemma is_max_unique {T} (leb : T -> T -> bool) (Hanti : forall a b, leb a b = true -> leb b a = true -> a = b) w a b :
  is_max leb w a -> is_max leb w b -> a = b.
Proof. intros [Ia Ma] [Ib Mb]. apply Hanti; [apply Mb; exact Ia|apply Ma; exact Ib]. Qed.

Lemma max_equivariant :
  forall (T : Type) (leb : T -> T -> bool), total_preorder leb -> (forall a b, leb a b = true -> leb b a = true -> a = b) ->
  forall f : T -> T, (forall a b, leb (f a) (f b) = leb a b) ->
  forall n maxu, (1 <= n)%N -> (n + 1 <= maxu)%N -> forall hist x,
  exists s s' t t' y, oexec (max_step leb n maxu false) init hist = Some s /\ max_step leb n maxu false s x = Some (s', y) /\
    oexec (max_step leb n maxu false) init (map f hist) = Some t /\ max_step leb n maxu false t (f x) = Some (t', f y).
Proof.
  intros T leb Hpre Hanti f Hf n maxu Hn Hm hist x.
  destruct (max_run T leb Hpre n maxu Hn Hm hist x) as (s & s' & y & E & F & M).
  destruct (max_run T leb Hpre n maxu Hn Hm (map f hist) (f x)) as (t & t' & y2 & E2 & F2 & M2).
  exists s, s', t, t', y. split; [exact E|]. split; [exact F|]. split; [exact E2|].
  rewrite F2. f_equal. f_equal.
  apply (is_max_unique leb Hanti (lastn (N.to_nat n) (map f hist ++ [f x]))); [exact M2|].
  replace (map f hist ++ [f x]) with (map f (hist ++ [x])) by (rewrite map_app; reflexivity).
  rewrite lastn_map. apply is_max_map; assumption.
Qed.

Lemma min_equivariant :
  forall (T : Type) (leb : T -> T -> bool), total_preorder leb -> (forall a b, leb a b = true -> leb b a = true -> a = b) ->
  forall f : T -> T, (forall a b, leb (f a) (f b) = leb a b) ->
  forall n maxu, (1 <= n)%N -> (n + 1 <= maxu)%N -> forall hist x,
  exists s s' t t' y, oexec (min_step leb n maxu false) init hist = Some s /\ min_step leb n maxu false s x = Some (s', y) /\
    oexec (min_step leb n maxu false) init (map f hist) = Some t /\ min_step leb n maxu false t (f x) = Some (t', f y).
Proof.
  intros T leb Hpre Hanti f Hf n maxu Hn Hm hist x.
  destruct (min_run T leb Hpre n maxu Hn Hm hist x) as (s & s' & y & E & F & M).
  destruct (min_run T leb Hpre n maxu Hn Hm (map f hist) (f x)) as (t & t' & y2 & E2 & F2 & M2).
  exists s, s', t, t', y. split; [exact E|]. split; [exact F|]. split; [exact E2|].
  rewrite F2. f_equal. f_equal.
  apply (is_max_unique (fun a b => leb b a) (fun a b H1 H2 => Hanti a b H2 H1) (lastn (N.to_nat n) (map f hist ++ [f x]))); [exact M2|].
  replace (map f hist ++ [f x]) with (map f (hist ++ [x])) by (rewrite map_app; reflexivity).
  rewrite lastn_map. apply (is_max_map (fun a b => leb b a) f (fun a b => Hf b a)). exact M.
Qed.
