From Signalo Require Import Model.Convolve Spec.C05 Base.Lincomb.

(* ---------- the push-until-evict loop ---------- *)
Lemma fill_S {A} f n (taps : list A) x :
  fill (S f) n taps x = match push_back n taps x with (t', Some e) => Some (t', e) | (t', None) => fill f n t' x end.
Proof. reflexivity. Qed.
Lemma fill_full {A} n (taps : list A) x f : (0 < n)%nat -> length taps = n ->
  fill (S f) n taps x = Some (tl taps ++ [x], hd x taps).
Proof.
  intros Hn L. rewrite fill_S. unfold push_back.
  destruct (Nat.eqb_spec n 0); [lia|]. destruct (Nat.ltb_spec (length taps) n); [lia|].
  destruct taps; simpl in *; [lia|reflexivity].
Qed.
Lemma fill_short {A} n (taps : list A) x f : (length taps < n)%nat -> (n - length taps <= f)%nat ->
  fill (S f) n taps x = Some (tl (taps ++ repeat x (n - length taps)) ++ [x], hd x (taps ++ repeat x (n - length taps))).
Proof.
  revert taps. induction f as [|f IH]; intros taps Hs Hf; [lia|].
  rewrite fill_S. unfold push_back at 1.
  destruct (Nat.eqb_spec n 0); [lia|]. destruct (Nat.ltb_spec (length taps) n); [|lia].
  destruct (Nat.eq_dec (S (length taps)) n) as [E|E].
  - rewrite fill_full by (rewrite ?app_length; simpl; lia).
    replace (n - length taps)%nat with 1%nat by lia. reflexivity.
  - rewrite IH by (rewrite app_length; simpl; lia).
    rewrite app_length. simpl length.
    replace (n - length taps)%nat with (S (n - (length taps + 1))) by lia.
    cbn [repeat]. rewrite <- app_assoc. reflexivity.
Qed.
Lemma fill_zero {A} (taps : list A) x f : fill (S f) 0 taps x = Some (taps, x).
Proof. reflexivity. Qed.

(* the padded window: [x(k-(n-1)); ...; x(k)] with indices clamped at 0 *)
Definition window (n : nat) (x0 : Q) (hist : list Q) : list Q := lastn n (repeat x0 n ++ hist).
Lemma window_length n x0 hist : length (window n x0 hist) = n.
Proof. unfold window. rewrite lastn_length, app_length, repeat_length. lia. Qed.

Lemma lastn_repeat_all {A} (c : A) n : lastn n (repeat c n) = repeat c n.
Proof. apply lastn_all. rewrite repeat_length. lia. Qed.

Lemma tl_repeat_snoc {A} (c : A) n : tl (repeat c n ++ [c]) = repeat c n.
Proof. destruct n; [reflexivity|]. cbn [repeat app tl]. rewrite <- repeat_cons. reflexivity. Qed.

Lemma repeat_snoc {A} (c : A) n : repeat c n ++ [c] = repeat c (S n).
Proof. rewrite <- repeat_cons. reflexivity. Qed.
Lemma lastn_repeat' {A} (c : A) N n : lastn N (repeat c n) = repeat c (Nat.min N n).
Proof.
  unfold lastn. rewrite repeat_length.
  replace n with ((n - N) + Nat.min N n)%nat at 2 by lia.
  rewrite repeat_app, skipn_app, repeat_length, Nat.sub_diag, skipn_all2 by (rewrite repeat_length; lia).
  reflexivity.
Qed.
Lemma first_fill {A} n (x0 : A) : fill (S n) n [] x0 = Some (repeat x0 n, x0).
Proof.
  destruct n as [|m]; [reflexivity|].
  rewrite fill_short by (simpl; lia). cbn [length app]. rewrite Nat.sub_0_r.
  cbn [repeat tl hd]. rewrite repeat_snoc. reflexivity.
Qed.
Lemma window_first n x0 : window n x0 [x0] = repeat x0 n.
Proof. unfold window. rewrite repeat_snoc, lastn_repeat'. f_equal. lia. Qed.
Lemma window_snoc n x0 hist x : window n x0 (hist ++ [x]) = lastn n (window n x0 hist ++ [x]).
Proof.
  unfold window. rewrite app_assoc. destruct n as [|n].
  - unfold lastn. rewrite !skipn_all2; auto; rewrite ?app_length; simpl; lia.
  - rewrite lastn_app_full; [|lia|rewrite app_length, repeat_length; lia].
    set (w := lastn (S n) (repeat x0 (S n) ++ hist)).
    assert (L : length w = S n) by (unfold w; rewrite lastn_length, app_length, repeat_length; lia).
    rewrite lastn_app_full; [|lia|lia].
    rewrite (lastn_all (S n) w) by lia. reflexivity.
Qed.

Lemma taps_inv n coeffs x0 hist :
  oexec (conv_step n coeffs) [] (x0 :: hist) = Some (window n x0 (x0 :: hist)).
Proof.
  induction hist as [|x hist IH] using rev_ind.
  - cbn [oexec]. unfold conv_step. rewrite first_fill. cbn [obind]. rewrite window_first. reflexivity.
  - rewrite app_comm_cons, (oexec_snoc _ _ _ _ _ IH).
    unfold conv_step. pose proof (window_length n x0 (x0 :: hist)) as L.
    rewrite window_snoc. set (w := window n x0 (x0 :: hist)) in *.
    destruct n as [|n].
    + rewrite fill_zero. cbn [obind]. destruct w; [|discriminate].
      unfold lastn. reflexivity.
    + rewrite fill_full by (auto; lia). cbn [obind].
      rewrite lastn_app_full by lia. rewrite (lastn_all (S n) w) by lia. reflexivity.
Qed.

(* ==================== C05: FIR semantics, delay, normalisation, Savitzky-Golay ==================== *)

(* ---------- generic window ---------- *)
Definition gwindow {A} (n : nat) (x0 : A) (hist : list A) : list A := lastn n (repeat x0 n ++ hist).
Lemma window_gwindow n x0 hist : window n x0 hist = gwindow n x0 hist.
Proof. reflexivity. Qed.
Lemma gwindow_length {A} n (x0 : A) hist : length (gwindow n x0 hist) = n.
Proof. unfold gwindow. rewrite lastn_length, app_length, repeat_length. lia. Qed.
Lemma gwindow_first {A} n (x0 : A) : gwindow n x0 [x0] = repeat x0 n.
Proof. unfold gwindow. rewrite repeat_snoc, lastn_repeat'. f_equal. lia. Qed.
Lemma gwindow_snoc {A} n (x0 : A) hist x : gwindow n x0 (hist ++ [x]) = lastn n (gwindow n x0 hist ++ [x]).
Proof.
  unfold gwindow. rewrite app_assoc. destruct n as [|n].
  - unfold lastn. rewrite !skipn_all2; auto; rewrite ?app_length; simpl; lia.
  - rewrite lastn_app_full; [|lia|rewrite app_length, repeat_length; lia].
    set (w := lastn (S n) (repeat x0 (S n) ++ hist)).
    assert (L : length w = S n) by (unfold w; rewrite lastn_length, app_length, repeat_length; lia).
    rewrite lastn_app_full; [|lia|lia].
    rewrite (lastn_all (S n) w) by lia. reflexivity.
Qed.
(* one push-until-evict on a full window: slides the window, evicts its head *)
Lemma fill_gwindow {A} n (x0 : A) hist x :
  fill (S n) n (gwindow n x0 hist) x = Some (gwindow n x0 (hist ++ [x]), hd x (gwindow n x0 hist)).
Proof.
  pose proof (gwindow_length n x0 hist) as L. rewrite gwindow_snoc.
  set (w := gwindow n x0 hist) in *. destruct n as [|n].
  - rewrite fill_zero. destruct w; [|discriminate]. reflexivity.
  - rewrite fill_full by (auto; lia).
    rewrite lastn_app_full by lia. rewrite (lastn_all (S n) w) by lia. reflexivity.
Qed.
Lemma nth_skipn {A} k (l : list A) i d : nth i (skipn k l) d = nth (k + i) l d.
Proof.
  revert l; induction k as [|k IH]; intros l; [reflexivity|].
  destruct l as [|a l]; [destruct i; reflexivity|]. cbn [skipn plus nth]. apply IH.
Qed.
Lemma nth_repeat_lt {A} (c d : A) m i : (i < m)%nat -> nth i (repeat c m) d = c.
Proof. revert i; induction m as [|m IH]; intros [|i] H; simpl; try lia; auto. apply IH; lia. Qed.
(* element i of the window after history [h] (non-empty, first sample x0) *)
Lemma nth_gwindow {A} n (x0 : A) hist i d : (i < n)%nat ->
  nth i (gwindow n x0 (x0 :: hist)) d = nth (S (length hist) - (n - i)) (x0 :: hist) x0.
Proof.
  intros Hi. unfold gwindow, lastn. rewrite nth_skipn, app_length, repeat_length.
  cbn [length]. replace (n + S (length hist) - n + i)%nat with (S (length hist) + i)%nat by lia.
  destruct (Nat.ltb_spec (S (length hist) + i) n) as [H|H].
  - rewrite app_nth1 by (rewrite repeat_length; lia). rewrite nth_repeat_lt by lia.
    replace (S (length hist) - (n - i))%nat with 0%nat by lia. reflexivity.
  - rewrite app_nth2 by (rewrite repeat_length; lia). rewrite repeat_length.
    replace (S (length hist) - (n - i))%nat with (S (length hist) + i - n)%nat by lia.
    apply nth_indep. cbn [length]. lia.
Qed.

(* ---------- dot-product form of the convolution sum ---------- *)
Lemma conv_fold_dot t r acc :
  fold_left (fun sum sc => radd sum (rmul (fst sc) (snd sc))) (combine t r) acc == acc + dot t r.
Proof.
  revert r acc; induction t as [|a t IH]; intros [|b r] acc; cbn [combine fold_left dot]; try ring.
  rewrite IH. cbn [fst snd]. rok. ring.
Qed.
Lemma conv_sum_dot t coeffs : conv_sum t coeffs == dot t (rev coeffs).
Proof. unfold conv_sum. rewrite conv_fold_dot. ring. Qed.
Lemma dot_comm u v : dot u v == dot v u.
Proof. revert v; induction u as [|a u IH]; intros [|b v]; cbn [dot]; try ring. rewrite IH. ring. Qed.
Lemma dot_rev u v : length u = length v -> dot (rev u) (rev v) == dot u v.
Proof.
  revert v; induction u as [|a u IH]; intros [|b v] H; simpl in H; try discriminate; [reflexivity|].
  cbn [rev]. rewrite dot_app by (rewrite !rev_length; lia). rewrite IH by lia. cbn [dot]. ring.
Qed.
Lemma dot_map_seq c (g : nat -> Q) :
  dot c (map g (seq 0 (length c))) == qsum (map (fun j => nth j c 0 * g j) (seq 0 (length c))).
Proof.
  revert g; induction c as [|a c IH]; intros g; [reflexivity|].
  cbn [length seq map dot qsum nth]. rewrite <- seq_shift, !map_map. rewrite IH. reflexivity.
Qed.
Lemma fir_dot c sig k : fir c sig k == dot c (map (fun j => sig_at sig (k - j)) (seq 0 (length c))).
Proof. unfold fir. rewrite dot_map_seq. reflexivity. Qed.

Lemma rev_gwindow n x0 hist :
  rev (gwindow n x0 (x0 :: hist)) = map (fun j => sig_at (x0 :: hist) (length hist - j)) (seq 0 n).
Proof.
  apply (nth_ext _ _ 0 (sig_at (x0 :: hist) (length hist - 0))).
  - rewrite rev_length, gwindow_length, map_length, seq_length. reflexivity.
  - intros i Hi. rewrite rev_length, gwindow_length in Hi.
    rewrite rev_nth by (rewrite gwindow_length; exact Hi). rewrite gwindow_length.
    rewrite (map_nth (fun j => sig_at (x0 :: hist) (length hist - j))), seq_nth by exact Hi.
    rewrite nth_gwindow by lia. unfold sig_at.
    replace (S (length hist) - (n - (n - S i)))%nat with (length hist - (0 + i))%nat by lia.
    apply nth_indep. cbn [length]. lia.
Qed.
Lemma conv_sum_window coeffs x0 hist :
  conv_sum (gwindow (length coeffs) x0 (x0 :: hist)) coeffs == fir coeffs (x0 :: hist) (length hist).
Proof.
  rewrite conv_sum_dot, fir_dot.
  rewrite <- (rev_involutive (gwindow _ _ _)), dot_rev by (rewrite !rev_length, gwindow_length; reflexivity).
  rewrite rev_gwindow. apply dot_comm.
Qed.

Lemma fir_app c l l' k : (k < length l)%nat -> fir c (l ++ l') k = fir c l k.
Proof.
  intros H. unfold fir. f_equal. apply map_ext. intros j. unfold sig_at.
  rewrite app_nth1 by lia. reflexivity.
Qed.

Lemma conv_run coeffs x0 hist :
  exists ys, orun (conv_step (length coeffs) coeffs) [] (x0 :: hist) = Some ys /\
    oexec (conv_step (length coeffs) coeffs) [] (x0 :: hist) = Some (gwindow (length coeffs) x0 (x0 :: hist)) /\
    length ys = length (x0 :: hist) /\
    forall k, (k < length (x0 :: hist))%nat -> nth k ys 0 == fir coeffs (x0 :: hist) k.
Proof.
  set (n := length coeffs).
  induction hist as [|x hist IH] using rev_ind.
  - exists [conv_sum (repeat x0 n) coeffs]. cbn [orun oexec]. unfold conv_step. rewrite first_fill. cbn [obind].
    rewrite gwindow_first. repeat split. intros k Hk. cbn [length] in Hk. replace k with 0%nat by lia. cbn [nth].
    rewrite <- gwindow_first. apply (conv_sum_window coeffs x0 []).
  - destruct IH as (ys & Ho & He & Hl & Hn).
    assert (St : conv_step n coeffs (gwindow n x0 (x0 :: hist)) x
                 = Some (gwindow n x0 (x0 :: hist ++ [x]), conv_sum (gwindow n x0 (x0 :: hist ++ [x])) coeffs)).
    { unfold conv_step. rewrite fill_gwindow. reflexivity. }
    destruct (orun_oexec_snoc _ _ _ _ _ _ _ _ Ho He St) as [A B].
    exists (ys ++ [conv_sum (gwindow n x0 (x0 :: hist ++ [x])) coeffs]).
    rewrite app_comm_cons. split; [exact A|]. split; [exact B|]. split.
    + rewrite !app_length, Hl. reflexivity.
    + intros k Hk. rewrite app_length in Hk. cbn [length] in Hk, Hl, Hn.
      destruct (Nat.eq_dec k (S (length hist))) as [->|Ne].
      * rewrite app_nth2 by lia. rewrite Hl, Nat.sub_diag. cbn [nth].
        rewrite <- app_comm_cons. unfold n. rewrite conv_sum_window, app_length. cbn [length].
        replace (length hist + 1)%nat with (S (length hist)) by lia. reflexivity.
      * rewrite app_nth1 by lia. rewrite fir_app by (cbn [length]; lia). apply Hn. lia.
Qed.
Lemma conv_fir coeffs x0 hist :
  let sig := x0 :: hist in
  exists ys, orun (conv_step (length coeffs) coeffs) [] sig = Some ys /\ length ys = length sig /\
    forall k, (k < length sig)%nat -> nth k ys 0 == fir coeffs sig k.
Proof. cbv zeta. destruct (conv_run coeffs x0 hist) as (ys & A & _ & B & C). exists ys. auto. Qed.

(* ---------- delay ---------- *)
Lemma hd_gwindow {A} n (x0 : A) hist x :
  hd x (gwindow n x0 (x0 :: hist)) = nth (S (length hist) - n) (x0 :: hist ++ [x]) x0.
Proof.
  destruct n as [|n].
  - unfold gwindow, lastn. rewrite skipn_all2 by (cbn [repeat app length]; lia). cbn [hd].
    rewrite Nat.sub_0_r. change (x = nth (S (length hist)) ((x0 :: hist) ++ [x]) x0).
    rewrite app_nth2 by (cbn [length]; lia). cbn [length]. rewrite Nat.sub_diag. reflexivity.
  - pose proof (gwindow_length (S n) x0 (x0 :: hist)) as L.
    pose proof (nth_gwindow (S n) x0 hist 0 x ltac:(lia)) as E.
    destruct (gwindow (S n) x0 (x0 :: hist)) as [|a w]; [discriminate|].
    change (hd x (a :: w)) with (nth 0 (a :: w) x). rewrite E, Nat.sub_0_r.
    rewrite app_comm_cons, app_nth1 by (cbn [length]; lia). reflexivity.
Qed.
Lemma delay_run {A} n (x0 : A) hist :
  exists ys, orun (delay_step n) [] (x0 :: hist) = Some ys /\
    oexec (delay_step n) [] (x0 :: hist) = Some (gwindow n x0 (x0 :: hist)) /\
    length ys = length (x0 :: hist) /\
    forall k, (k < length (x0 :: hist))%nat -> nth k ys x0 = nth (k - n) (x0 :: hist) x0.
Proof.
  induction hist as [|x hist IH] using rev_ind.
  - exists [x0]. cbn [orun oexec]. unfold delay_step. rewrite first_fill, gwindow_first. repeat split.
    intros k Hk. cbn [length] in Hk. replace k with 0%nat by lia. reflexivity.
  - destruct IH as (ys & Ho & He & Hl & Hn).
    assert (St : delay_step n (gwindow n x0 (x0 :: hist)) x
                 = Some (gwindow n x0 (x0 :: hist ++ [x]), hd x (gwindow n x0 (x0 :: hist)))).
    { unfold delay_step. rewrite fill_gwindow. reflexivity. }
    destruct (orun_oexec_snoc _ _ _ _ _ _ _ _ Ho He St) as [B C].
    exists (ys ++ [hd x (gwindow n x0 (x0 :: hist))]).
    rewrite app_comm_cons. split; [exact B|]. split; [exact C|]. split.
    + rewrite !app_length, Hl. reflexivity.
    + intros k Hk. rewrite app_length in Hk. cbn [length] in Hk, Hl, Hn.
      destruct (Nat.eq_dec k (S (length hist))) as [->|Ne].
      * rewrite app_nth2 by lia. rewrite Hl, Nat.sub_diag. cbn [nth]. apply hd_gwindow.
      * rewrite !app_nth1 by (cbn [length]; lia). apply Hn. lia.
Qed.
Lemma delay_shift (A : Type) n (x0 : A) hist :
  let sig := x0 :: hist in
  exists ys, orun (delay_step n) [] sig = Some ys /\ length ys = length sig /\
    forall k, (k < length sig)%nat -> nth k ys x0 = nth (k - n) sig x0.
Proof. cbv zeta. destruct (delay_run n x0 hist) as (ys & B & _ & C & D). exists ys. auto. Qed.

(* ---------- linearity, shift invariance ---------- *)
Lemma nth_vadd_scale a b xs ys i : length xs = length ys ->
  nth i (vadd (scale a xs) (scale b ys)) 0 == a * nth i xs 0 + b * nth i ys 0.
Proof.
  revert ys i; induction xs as [|x xs IH]; intros [|y ys] i H; simpl in H; try discriminate.
  - destruct i; cbn; ring.
  - destruct i; cbn [scale map vadd nth]; [ring|]. apply IH. lia.
Qed.
Lemma fir_linear c xs ys a b k : length xs = length ys -> (k < length xs)%nat ->
  fir c (vadd (scale a xs) (scale b ys)) k == a * fir c xs k + b * fir c ys k.
Proof.
  intros H _. unfold fir. induction (seq 0 (length c)) as [|j l IH]; cbn [map qsum]; [ring|].
  rewrite IH. unfold sig_at. rewrite nth_vadd_scale by exact H. ring.
Qed.
Lemma nth_pad_front (sig : list Q) d i : nth i (repeat (nth 0 sig 0) d ++ sig) 0 = nth (i - d) sig 0.
Proof.
  revert i; induction d as [|d IH]; intros i; [rewrite Nat.sub_0_r; reflexivity|].
  destruct i as [|i]; [reflexivity|]. cbn [repeat app nth]. rewrite IH. reflexivity.
Qed.
Lemma fir_shift c sig d k : sig <> [] -> fir c (repeat (sig_at sig 0) d ++ sig) k == fir c sig (k - d).
Proof.
  intros _. unfold fir, sig_at.
  rewrite (map_ext _ (fun j => nth j c 0 * nth (k - d - j) sig 0)); [reflexivity|].
  intros j. rewrite nth_pad_front. do 2 f_equal. lia.
Qed.

(* ---------- normalized ---------- *)
Lemma fold_radd l acc : fold_left radd l acc == acc + qsum l.
Proof. revert acc; induction l as [|a l IH]; intros acc; cbn [fold_left qsum]; [ring|]. rewrite IH. rok. ring. Qed.
Lemma coeff_sum_ok coeffs : coeff_sum coeffs == qsum coeffs.
Proof. unfold coeff_sum. rewrite fold_radd. ring. Qed.
Lemma normalized_zero_sum coeffs : qsum coeffs == 0 -> normalized coeffs = coeffs.
Proof.
  intros H. unfold normalized. rewrite <- coeff_sum_ok in H. apply Qeq_bool_iff in H. rewrite H. reflexivity.
Qed.
Lemma normalized_length coeffs : length (normalized coeffs) = length coeffs.
Proof. unfold normalized. destruct (Qeq_bool _ _); [reflexivity|apply map_length]. Qed.
Lemma qsum_map_rdiv s l : qsum (map (fun c => rdiv c s) l) == qsum l / s.
Proof.
  unfold Qdiv. induction l as [|a l IH]; cbn [map qsum]; [ring|]. rewrite IH. rok. unfold Qdiv. ring.
Qed.
Lemma qsum_normalized coeffs : ~ qsum coeffs == 0 -> qsum (normalized coeffs) == 1.
Proof.
  intros H. unfold normalized. pose proof (coeff_sum_ok coeffs) as E.
  destruct (Qeq_bool (coeff_sum coeffs) 0) eqn:B.
  - apply Qeq_bool_iff in B. rewrite E in B. contradiction.
  - rewrite qsum_map_rdiv, E. field. exact H.
Qed.
Lemma map_const_repeat {A B} (c : B) (l : list A) : map (fun _ => c) l = repeat c (length l).
Proof. induction l; simpl; congruence. Qed.
Lemma fir_const c K m k : (k < m)%nat -> fir c (repeat K m) k == K * qsum c.
Proof.
  intros H. rewrite fir_dot.
  rewrite (map_ext_in _ (fun _ => K)).
  - rewrite map_const_repeat, seq_length. apply dot_repeat. reflexivity.
  - intros j _. unfold sig_at. apply nth_repeat_lt. lia.
Qed.
Lemma normalized_unit_gain {A} coeffs K (hist : list A) : ~ qsum coeffs == 0 ->
  exists ys, orun (conv_step (length coeffs) (normalized coeffs)) [] (K :: map (fun _ => K) hist) = Some ys /\
    Forall (fun y => y == K) ys.
Proof.
  intros H.
  destruct (conv_fir (normalized coeffs) K (map (fun _ => K) hist)) as (ys & R & L & F).
  rewrite normalized_length in R. exists ys. split; [exact R|].
  apply Forall_forall. intros y Hy. destruct (In_nth _ _ 0 Hy) as (k & Hk & <-).
  rewrite F by lia. rewrite map_const_repeat.
  change (K :: repeat K (length hist)) with (repeat K (S (length hist))).
  rewrite fir_const.
  - rewrite qsum_normalized by exact H. ring.
  - rewrite L in Hk. cbn [length] in Hk. rewrite map_length in Hk. exact Hk.
Qed.

(* ---------- sums over lists ---------- *)
Lemma qsum_map_ext {A} (f g : A -> Q) l : (forall x, In x l -> f x == g x) -> qsum (map f l) == qsum (map g l).
Proof.
  induction l as [|x l IH]; intros H; cbn [map qsum]; [reflexivity|].
  rewrite (H x) by (left; reflexivity). rewrite IH; [reflexivity|]. intros y Hy. apply H. right. exact Hy.
Qed.
Lemma qsum_map_le {A} (f g : A -> Q) l : (forall x, In x l -> f x <= g x) -> qsum (map f l) <= qsum (map g l).
Proof.
  induction l as [|x l IH]; intros H; cbn [map qsum]; [apply Qle_refl|].
  apply Qplus_le_compat; [apply H; left; reflexivity|]. apply IH. intros y Hy. apply H. right. exact Hy.
Qed.
Lemma qsum_map_sub {A} (f g : A -> Q) l : qsum (map f l) - qsum (map g l) == qsum (map (fun x => f x - g x) l).
Proof. induction l as [|x l IH]; cbn [map qsum]; [ring|]. rewrite <- IH. ring. Qed.
Lemma Qabs_qsum_map {A} (f : A -> Q) l : Qabs (qsum (map f l)) <= qsum (map (fun x => Qabs (f x)) l).
Proof.
  induction l as [|x l IH]; cbn [map qsum]; [apply Qle_refl|].
  eapply Qle_trans; [apply Qabs_triangle|]. apply Qplus_le_compat; [apply Qle_refl|exact IH].
Qed.

Lemma qnat_add m k : qnat (m + k) == qnat m + qnat k.
Proof. unfold qnat. rewrite Nat2Z.inj_add, inject_Z_plus. reflexivity. Qed.
Lemma qnat_sub n j : (j <= n)%nat -> qnat (n - j) == qnat n - qnat j.
Proof. intros H. replace n with ((n - j) + j)%nat at 2 by lia. rewrite qnat_add. ring. Qed.

(* ---------- FIR on a straight line ---------- *)
Lemma ramp_at a b n i : (i <= n)%nat ->
  sig_at (map (fun i => a + b * qnat i) (seq 0 (S n))) i = a + b * qnat i.
Proof.
  intros H. unfold sig_at.
  rewrite (nth_indep _ 0 ((fun i => a + b * qnat i) 0%nat)) by (rewrite map_length, seq_length; lia).
  rewrite (map_nth (fun i => a + b * qnat i)), seq_nth by lia. reflexivity.
Qed.
Lemma fir_ramp c a b n : (length c <= S n)%nat ->
  fir c (map (fun i => a + b * qnat i) (seq 0 (S n))) n
  == qsum (map (fun j => nth j c 0 * (a + b * qnat n - b * qnat j)) (seq 0 (length c))).
Proof.
  intros H. unfold fir. apply qsum_map_ext. intros j Hj. apply in_seq in Hj.
  rewrite ramp_at by lia. rewrite qnat_sub by lia. ring.
Qed.

(* sum_{j<M} (A - B j) iD (P - b j) in closed form *)
Lemma sg_sum_closed A B iD P b M :
  qsum (map (fun j => (A - B * qnat j) * iD * (P - b * qnat j)) (seq 0 M))
  == iD * (A * P * qnat M - (A * b + B * P) * (qnat M * (qnat M - 1) * (1#2))
           + B * b * ((qnat M - 1) * qnat M * (2 * qnat M - 1) * (1#6))).
Proof.
  induction M as [|M IH].
  - cbn [seq map qsum]. change (qnat 0) with 0. ring.
  - rewrite seq_S, map_app, qsum_app, IH. cbn [plus map qsum]. rewrite qnat_S. ring.
Qed.

Lemma sg_exact_reproduces_lines N a b n : (0 < N)%nat -> (N - 1 <= n)%nat ->
  let e := map (sg_exact N) (seq 0 N) in
  let ramp := map (fun i => a + b * qnat i) (seq 0 (S n)) in
  fir e ramp n == a + b * qnat n.
Proof.
  intros HN Hn. cbv zeta.
  assert (L : length (map (sg_exact N) (seq 0 N)) = N) by (rewrite map_length, seq_length; reflexivity).
  rewrite fir_ramp by lia. rewrite L.
  rewrite (qsum_map_ext _ (fun j => (2 * (2 * qnat N - 1) - 6 * qnat j) * / (qnat N * (qnat N + 1))
                                    * (a + b * qnat n - b * qnat j))).
  - rewrite sg_sum_closed. pose proof (qnat_pos N HN) as Hp.
    timeout 60 field. split; lra.
  - intros j Hj. apply in_seq in Hj.
    rewrite (nth_indep _ 0 (sg_exact N 0)) by lia.
    rewrite (map_nth (sg_exact N)), seq_nth by lia. reflexivity.
Qed.

(* sum_{j<M} tol (X + j Y) in closed form *)
Lemma tol_sum_closed t X Y M :
  qsum (map (fun j => t * (X + qnat j * Y)) (seq 0 M)) == t * (qnat M * X + qnat M * (qnat M - 1) * (1#2) * Y).
Proof.
  induction M as [|M IH].
  - cbn [seq map qsum]. change (qnat 0) with 0. ring.
  - rewrite seq_S, map_app, qsum_app, IH. cbn [plus map qsum]. rewrite qnat_S. ring.
Qed.

Lemma Qmult_le_both u v t w : 0 <= u -> u <= t -> 0 <= v -> v <= w -> u * v <= t * w.
Proof.
  intros H1 H2 H3 H4. apply Qle_trans with (t * v).
  - apply Qmult_le_compat_r; assumption.
  - rewrite (Qmult_comm t v), (Qmult_comm t w). apply Qmult_le_compat_r; [assumption|].
    apply Qle_trans with u; assumption.
Qed.

Lemma sg_table_reproduces_lines N tbl a b n : (0 < N)%nat -> (N - 1 <= n)%nat ->
  sg_table_ok N tbl = true ->
  let ramp := map (fun i => a + b * qnat i) (seq 0 (S n)) in
  Qabs (fir tbl ramp n - (a + b * qnat n))
  <= qnat N * sg_tol * Qabs (a + b * qnat n) + qnat N * (qnat N - 1) / 2 * sg_tol * Qabs b.
Proof.
  intros HN Hn Hok. cbv zeta.
  unfold sg_table_ok in Hok. apply andb_true_iff in Hok. destruct Hok as [HL Hd].
  apply Nat.eqb_eq in HL. rewrite forallb_forall in Hd.
  pose proof (sg_exact_reproduces_lines N a b n HN Hn) as E. cbv zeta in E.
  rewrite <- E at 1.
  assert (L : length (map (sg_exact N) (seq 0 N)) = N) by (rewrite map_length, seq_length; reflexivity).
  rewrite !fir_ramp by lia. rewrite L, HL. rewrite qsum_map_sub.
  set (P := a + b * qnat n).
  eapply Qle_trans; [apply Qabs_qsum_map|].
  eapply Qle_trans; [apply (qsum_map_le _ (fun j => sg_tol * (Qabs P + qnat j * Qabs b)))|].
  - intros j Hj. pose proof (Hd j Hj) as Hdj. apply Qle_bool_iff in Hdj. apply in_seq in Hj.
    rewrite (nth_indep (map _ _) 0 (sg_exact N 0)) by lia.
    rewrite (map_nth (sg_exact N)), seq_nth by lia. cbn [plus].
    setoid_replace (nth j tbl 0 * (P - b * qnat j) - sg_exact N j * (P - b * qnat j))
      with ((nth j tbl 0 - sg_exact N j) * (P - b * qnat j)) by ring.
    rewrite Qabs_Qmult. apply Qmult_le_both; [apply Qabs_nonneg|exact Hdj|apply Qabs_nonneg|].
    setoid_replace (P - b * qnat j) with (P + - (b * qnat j)) by ring.
    eapply Qle_trans; [apply Qabs_triangle|]. rewrite Qabs_opp, Qabs_Qmult.
    rewrite (Qabs_pos (qnat j)) by apply qnat_nonneg. rewrite (Qmult_comm (Qabs b)). apply Qle_refl.
  - rewrite tol_sum_closed. apply Qle_lteq. right. field.
Qed.
