(* C02 / C17: the median filter model returns the lower median of the window; accessors. *)
From Coq Require Import List Arith Lia Bool Permutation ZArith ZifyNat.
From Signalo Require Import Base.Machine Spec.C02 Model.Median.
From Signalo Require Import Proofs.MedianBase Proofs.MedianSort Proofs.MedianPtr Proofs.MedianLoop.
Import ListNotations.

(* ---------- generic: panicking machines ---------- *)
Lemma oexec_snoc {S X Y} (step : S -> X -> option (S * Y)) s xs x :
  oexec step s (xs ++ [x]) =
  match oexec step s xs with
  | Some s1 => match step s1 x with Some (s', _) => Some s' | None => None end
  | None => None
  end.
Proof.
  revert s; induction xs as [|a xs IH]; intros s; simpl.
  - destruct (step s x) as [[s' y]|]; reflexivity.
  - destruct (step s a) as [[s' y]|]; [apply IH|reflexivity].
Qed.

Lemma last_in {A} (l : list A) d : l <> [] -> In (last l d) l.
Proof.
  induction l as [|a l IH]; intros H; [congruence|].
  destruct l as [|a' l']; [left; reflexivity|]. right. apply IH. discriminate.
Qed.

Lemma lastn_snoc_in {A} N (hist : list A) x : 0 < N -> In x (lastn N (hist ++ [x])).
Proof.
  intros HN. destruct (Nat.lt_ge_cases (length hist) N).
  - rewrite lastn_app_short by auto. apply in_or_app. right. left. reflexivity.
  - rewrite lastn_app_full by auto. apply in_or_app. right. left. reflexivity.
Qed.

Section Main.
Variable T : Type.
Variable leb : T -> T -> bool.
Notation node := (node T).
Notation mstate := (mstate T).

(* ---------- the invariant ---------- *)
Record Inv (N : nat) (s : mstate) (hist : list T) (ring : list nat) (sorted : list T) : Prop := {
  i_len : length (buffer s) = N;
  i_lk : LinkedI (buffer s) ring;
  i_rlen : length ring = N;
  i_head : nth 0 ring 0 = head s;
  i_vals : forall k, k < N -> vl (buffer s) (nth k ring 0) = nth_error sorted k;
  i_perm : Permutation sorted (lastn N hist);
  i_age : forall j, j < length hist -> length hist <= j + N ->
          vl (buffer s) (j mod N) = nth_error hist j;
  i_empty : forall i, length hist <= i -> i < N -> vl (buffer s) i = None;
  i_cur : cursor s = length hist mod N;
  i_med : sorted <> [] -> median s = at_ ring ((length sorted - 1) / 2);
  i_sorted : total_order leb -> ssorted T leb sorted }.

Lemma Inv_sorted_len N s hist ring sorted : Inv N s hist ring sorted ->
  length sorted = Nat.min N (length hist).
Proof. intros I. rewrite (Permutation_length (i_perm _ _ _ _ _ I)). apply lastn_length. Qed.

(* ---------- initial state ---------- *)
Lemma gt_init N i : i < N ->
  gt (buffer (@init T N)) i = {| value := None; previous := (i + N - 1) mod N; next := (i + 1) mod N |}.
Proof.
  intros H. unfold init, gt. cbn [buffer].
  set (f := fun i0 : nat => {| value := @None T; previous := (i0 + N - 1) mod N; next := (i0 + 1) mod N |}).
  rewrite (nth_indep _ dnode (f 0)) by (rewrite map_length, seq_length; exact H).
  rewrite map_nth. rewrite seq_nth by exact H. reflexivity.
Qed.

Lemma init_length N : length (buffer (@init T N)) = N.
Proof. unfold init. cbn [buffer]. rewrite map_length, seq_length. reflexivity. Qed.

Lemma Inv_init N : 0 < N -> Inv N (init N) [] (seq 0 N) [].
Proof.
  intros HN.
  assert (Hnx : forall i, i < N -> nx (buffer (@init T N)) i = (i + 1) mod N)
    by (intros i Hi; unfold nx; rewrite gt_init by auto; reflexivity).
  assert (Hpv : forall i, i < N -> pv (buffer (@init T N)) i = (i + N - 1) mod N)
    by (intros i Hi; unfold pv; rewrite gt_init by auto; reflexivity).
  assert (Hvl : forall i, i < N -> vl (buffer (@init T N)) i = None)
    by (intros i Hi; unfold vl; rewrite gt_init by auto; reflexivity).
  assert (Hne : seq 0 N <> []) by (destruct N; [lia|discriminate]).
  split.
  - apply init_length.
  - apply LinkedI_intro; auto.
    + apply seq_NoDup.
    + apply Forall_forall. intros i Hi. apply in_seq in Hi. rewrite init_length. lia.
    + intros k Hk. rewrite seq_length in Hk. rewrite seq_nth by auto. simpl.
      assert (Hm : S k mod N < N) by (apply Nat.mod_upper_bound; lia).
      assert (E : at_ (seq 0 N) (S k) = S k mod N).
      { unfold at_. rewrite seq_length. rewrite seq_nth by auto. reflexivity. }
      rewrite E. split.
      * rewrite Hnx by auto. f_equal. lia.
      * rewrite Hpv by auto. replace (S k) with (k + 1) by lia. apply mod_pred_succ. auto.
  - apply seq_length.
  - destruct N; [lia|reflexivity].
  - intros k Hk. rewrite seq_nth by auto. simpl. rewrite Hvl by auto. destruct k; reflexivity.
  - rewrite lastn_nil. constructor.
  - simpl. intros j Hj. lia.
  - intros i _ Hi. apply Hvl; auto.
  - simpl. rewrite Nat.mod_0_l by lia. reflexivity.
  - congruence.
  - intros _. exact I.
Qed.

(* ---------- the tail of [filter] after the insertion loop ---------- *)
Definition finish (b3 : list node) (med3 h c : nat) (v : T) : option (mstate * T) :=
  hn <- getn T b3 h ;;
  let fire := match value hn with Some hv => leb v hv | None => true end in
  r2 <- (if fire then (mn <- getn T b3 med3 ;; Some (c, previous mn)) else Some (h, med3)) ;;
  let '(head4, med4) := r2 in
  med5 <- (if Nat.even (length b3) then (mn <- getn T b3 med4 ;; Some (previous mn)) else Some med4) ;;
  cur5 <- (if length b3 =? 0 then None else Some ((c + 1) mod length b3)) ;;
  mn <- getn T b3 med5 ;;
  out <- value mn ;;
  Some ({| buffer := b3; cursor := cur5; head := head4; median := med5 |}, out).

Lemma filter_unfold s v :
  Median.filter leb s v =
  (s1 <- move_head_forward T s ;;
   s2 <- remove_node T s1 ;;
   r <- insert_loop T leb (seq 0 (length (buffer s2))) (cursor s2) v (buffer s2) (head s2) (head s2) false ;;
   let '(b3, med3) := r in finish b3 med3 (head s2) (cursor s2) v).
Proof. reflexivity. Qed.

Lemma finish_spec b R N j h c v y fire :
  LinkedI b R -> length b = N -> 0 < N -> h < N -> vl b (at_ R j) = Some y ->
  match vl b h with Some hv => leb v hv | None => true end = fire ->
  finish b (at_ R (j + (if Nat.even N then 1 else 0) + (if fire then 1 else 0))) h c v =
  Some ({| buffer := b; cursor := (c + 1) mod N; head := if fire then c else h; median := at_ R j |}, y).
Proof.
  intros L Hl HN Hh Hy Hf.
  assert (Hat : forall k, at_ R k < length b).
  { intros k. eapply linked_lt; [exact L|]. apply at_in. apply (lk_ne _ _ _ L). }
  unfold finish. rewrite getn_lt by lia. cbn [obind]. fold (vl b h). rewrite Hf.
  assert (Tail : forall hd4,
    (med5 <- (if Nat.even (length b)
              then (mn <- getn T b (at_ R (j + (if Nat.even N then 1 else 0))) ;; Some (previous mn))
              else Some (at_ R (j + (if Nat.even N then 1 else 0)))) ;;
     cur5 <- (if length b =? 0 then None else Some ((c + 1) mod length b)) ;;
     mn <- getn T b med5 ;;
     out <- value mn ;;
     Some ({| buffer := b; cursor := cur5; head := hd4; median := med5 |}, out)) =
    Some ({| buffer := b; cursor := (c + 1) mod N; head := hd4; median := at_ R j |}, y)).
  { intros hd4. rewrite Hl. destruct (Nat.even N).
    - rewrite getn_lt by apply Hat. cbn [obind].
      replace (j + 1) with (S j) by lia. fold (pv b (at_ R (S j))). rewrite (lk_pv _ _ _ L).
      destruct (Nat.eqb_spec N 0); [lia|]. cbn [obind].
      rewrite getn_lt by apply Hat. cbn [obind]. fold (vl b (at_ R j)). rewrite Hy. reflexivity.
    - cbn [obind]. rewrite Nat.add_0_r.
      destruct (Nat.eqb_spec N 0); [lia|]. cbn [obind].
      rewrite getn_lt by apply Hat. cbn [obind]. fold (vl b (at_ R j)). rewrite Hy. reflexivity. }
  destruct fire.
  - rewrite getn_lt by apply Hat. cbn [obind].
    replace (j + (if Nat.even N then 1 else 0) + 1) with (S (j + (if Nat.even N then 1 else 0))) by lia.
    fold (pv b (at_ R (S (j + (if Nat.even N then 1 else 0))))). rewrite (lk_pv _ _ _ L).
    apply Tail.
  - cbn [obind]. rewrite Nat.add_0_r. apply Tail.
Qed.

(* ---------- one filter step preserves the invariant ---------- *)
Definition step_goal N s hist x : Prop :=
  exists s' ring' sorted',
    Median.filter leb s x = Some (s', nth ((length sorted' - 1) / 2) sorted' x) /\
    Inv N s' (hist ++ [x]) ring' sorted'.

Lemma Inv_step_1 s hist ring sorted x : Inv 1 s hist ring sorted -> step_goal 1 s hist x.
Proof.
  intros I. destruct I as [Hlen L Hrlen Hhead Hvals Hperm Hage Hempty Hcur Hmed Hsorted].
  destruct s as [b c h m]. cbn [buffer cursor head median] in *.
  rewrite Nat.mod_1_r in Hcur. subst c.
  destruct ring as [|i [|? ?]]; try discriminate.
  pose proof (lk_rng _ _ _ L) as F. inversion F as [|? ? Hi _]; subst. rewrite Hlen in Hi.
  assert (i = 0) by lia. subst i. cbn [nth] in *.
  assert (Hnx : nx b 0 = 0) by (apply (lk_nx _ _ _ L 0)).
  assert (Hpv : pv b 0 = 0) by (apply (lk_pv _ _ _ L 0)).
  destruct b as [|nd [|? ?]]; try discriminate. destruct nd as [v0 p0 n0].
  unfold nx, pv, gt in Hnx, Hpv. cbn in Hnx, Hpv. subst p0 n0.
  set (b' := [{| value := Some x; previous := 0; next := 0 |}]).
  exists {| buffer := b'; cursor := 0; head := 0; median := 0 |}, [0], [x].
  split.
  - cbv. destruct (leb x x); reflexivity.
  - assert (Hv' : vl b' 0 = Some x) by reflexivity.
    split; cbn [buffer cursor head median].
    + reflexivity.
    + apply LinkedI_intro.
      * discriminate.
      * constructor; [intros []|constructor].
      * constructor; [simpl; lia|constructor].
      * intros k Hk. simpl in Hk. assert (k = 0) by lia. subst k. split; reflexivity.
    + reflexivity.
    + reflexivity.
    + intros k Hk. assert (k = 0) by lia. subst k. reflexivity.
    + rewrite (lastn_lastn_app 1 hist [x]) by (simpl; lia). apply Permutation_refl.
    + intros j Hj1 Hj2. rewrite app_length in Hj1, Hj2. simpl in Hj1, Hj2.
      assert (j = length hist) by lia. subst j. rewrite Nat.mod_1_r.
      rewrite nth_error_app2 by lia. rewrite Nat.sub_diag. reflexivity.
    + intros i Hi1 Hi2. rewrite app_length in Hi1. simpl in Hi1. lia.
    + rewrite Nat.mod_1_r. reflexivity.
    + intros _. reflexivity.
    + intros _. split; [intros ? []|exact I].
Qed.

Lemma Inv_step_ge2 N s hist ring sorted x : 2 <= N -> Inv N s hist ring sorted -> step_goal N s hist x.
Proof.
  intros HN I. pose proof (Inv_sorted_len _ _ _ _ _ I) as Hslen.
  destruct I as [Hlen L Hrlen Hhead Hvals Hperm Hage Hempty Hcur Hmed Hsorted].
  destruct s as [b c h m]. cbn [buffer cursor head median] in *.
  pose proof (lk_nd _ _ _ L) as Hnd. pose proof (lk_ne _ _ _ L) as Hne.
  assert (Hc : c < N) by (rewrite Hcur; apply Nat.mod_upper_bound; lia).
  (* the cursor slot is on the ring *)
  assert (Hcin : In c ring).
  { assert (Hincl : incl (seq 0 N) ring).
    { apply NoDup_length_incl; auto.
      - rewrite seq_length. lia.
      - intros i Hi. apply in_seq. pose proof (linked_lt _ _ _ _ L Hi). lia. }
    apply Hincl. apply in_seq. lia. }
  destruct (in_split c ring Hcin) as [l1 [l2 Er]].
  set (q := length l1).
  assert (Hlens : length l1 + S (length l2) = N).
  { rewrite <- Hrlen, Er, app_length. reflexivity. }
  assert (Hq : q < N) by (unfold q; lia).
  assert (Hnthq : nth q ring 0 = c).
  { rewrite Er. rewrite app_nth2 by (unfold q; lia). unfold q. rewrite Nat.sub_diag. reflexivity. }
  assert (Hinj : forall i j, i < N -> j < N -> nth i ring 0 = nth j ring 0 -> i = j).
  { intros i j Hi Hj. apply (proj1 (NoDup_nth ring 0) Hnd); lia. }
  (* unlink *)
  assert (Lrot : LinkedI b (c :: l2 ++ l1)).
  { change (c :: l2 ++ l1) with ((c :: l2) ++ l1). apply LinkedI_rot. rewrite <- Er. exact L. }
  assert (Hrest : l2 ++ l1 <> []).
  { intros E. apply (f_equal (@length nat)) in E. rewrite app_length in E. simpl in E. lia. }
  destruct (unlink_linked T b c (l2 ++ l1) Lrot Hrest) as [L0' Fvl0].
  apply LinkedI_rot in L0'.
  set (b0 := unlink b c) in *. set (ring0 := l1 ++ l2) in *.
  assert (Hb0len : length b0 = N) by (unfold b0; rewrite unlink_length; exact Hlen).
  assert (Hring0 : length ring0 = N - 1) by (unfold ring0; rewrite app_length; lia).
  assert (Hcnot : ~ In c ring0).
  { unfold ring0. rewrite Er in Hnd. apply NoDup_remove_2 in Hnd. exact Hnd. }
  assert (Hpc : pv b c < length b).
  { eapply linked_lt; [exact L|]. apply linked_pv_in; auto. }
  assert (Hsc : nx b c < length b).
  { eapply linked_lt; [exact L|]. apply linked_nx_in; auto. }
  (* head after move_head_forward *)
  assert (Hh : h < length b).
  { eapply linked_lt; [exact L|]. rewrite <- Hhead. apply nth_In. lia. }
  set (h1 := if c =? h then nx b h else h).
  assert (Hmove : move_head_forward T {| buffer := b; cursor := c; head := h; median := m |} =
                  Some {| buffer := b; cursor := c; head := h1; median := m |}).
  { unfold move_head_forward, h1. cbn [buffer cursor head median].
    destruct (c =? h); [|reflexivity]. rewrite getn_lt by exact Hh. reflexivity. }
  assert (Hh1 : h1 = nth 0 ring0 0).
  { unfold h1, ring0. destruct l1 as [|a l1'].
    - simpl in Er. rewrite Er in Hhead. simpl in Hhead. subst h. rewrite Nat.eqb_refl.
      assert (E : c = at_ ring 0) by (rewrite at_0 by auto; rewrite Er; reflexivity).
      rewrite E at 1. rewrite (lk_nx _ _ _ L). rewrite at_lt by lia. rewrite Er. reflexivity.
    - rewrite Er in Hhead. simpl in Hhead. subst h.
      destruct (Nat.eqb_spec c a) as [E|E]; [|reflexivity].
      exfalso. rewrite Er in Hnd. simpl in Hnd. inversion Hnd as [|? ? Hn _]; subst.
      apply Hn. apply in_or_app. right. left. reflexivity. }
  (* values along the reduced ring *)
  set (sorted0 := remove_at q sorted).
  assert (Hv0 : forall k, k < N - 1 -> vl b0 (nth k ring0 0) = nth_error sorted0 k).
  { intros k Hk. unfold ring0, sorted0. rewrite (nth_app_del l1 l2 c k 0), <- Er.
    rewrite nth_error_remove_at. fold q. rewrite Fvl0.
    destruct (Nat.ltb_spec k q).
    - destruct (Nat.eqb_spec (nth k ring 0) c) as [E|E].
      + rewrite <- Hnthq in E. apply Hinj in E; lia.
      + apply Hvals. lia.
    - destruct (Nat.eqb_spec (nth (S k) ring 0) c) as [E|E].
      + rewrite <- Hnthq in E. apply Hinj in E; lia.
      + apply Hvals. lia. }
  (* window bookkeeping *)
  assert (Hvc : vl b c = nth_error sorted q) by (rewrite <- Hnthq; apply Hvals; exact Hq).
  assert (Hwin : exists w0, Permutation sorted0 w0 /\ lastn N (hist ++ [x]) = w0 ++ [x] /\
                            length sorted0 <= N - 1).
  { destruct (Nat.lt_ge_cases (length hist) N) as [Hshort|Hfull].
    - assert (Ec : c = length hist) by (rewrite Hcur; apply Nat.mod_small; exact Hshort).
      assert (Hnone : nth_error sorted q = None).
      { rewrite <- Hvc. apply Hempty; lia. }
      apply nth_error_None in Hnone.
      exists (lastn N hist). unfold sorted0. rewrite remove_at_ge by exact Hnone.
      split; [exact Hperm|]. split; [apply lastn_app_short; exact Hshort|]. lia.
    - assert (Hj : vl b ((length hist - N) mod N) = nth_error hist (length hist - N))
        by (apply Hage; lia).
      rewrite mod_sub_self in Hj by lia. rewrite <- Hcur in Hj.
      rewrite nth_error_hd_skipn in Hj. change (skipn (length hist - N) hist) with (lastn N hist) in Hj.
      assert (Hwlen : length (lastn N hist) = N) by (rewrite lastn_length; lia).
      destruct (lastn N hist) as [|v0 wt] eqn:Ew; [simpl in Hwlen; lia|].
      simpl in Hj. rewrite Hvc in Hj.
      exists wt. split; [|split].
      + pose proof (remove_at_split q sorted v0 Hj) as Es.
        apply Permutation_cons_inv with (a := v0).
        etransitivity; [|exact Hperm]. unfold sorted0, remove_at.
        etransitivity; [apply Permutation_middle|]. rewrite <- Es. apply Permutation_refl.
      + rewrite lastn_app_full by lia. rewrite Ew. reflexivity.
      + assert (q < length sorted) by (apply nth_error_Some; congruence).
        pose proof (remove_at_length q sorted H). fold sorted0 in H0. lia. }
  destruct Hwin as [w0 [Hperm0 [Hwin Hr]]].
  (* the loop *)
  pose proof (insert_loop_spec T leb x c N b0 ring0 sorted0 HN Hb0len L0' Hring0 Hc Hcnot Hr Hv0) as Hloop.
  destruct (loop_link T leb x c N b0 ring0 sorted0 HN Hb0len L0' Hring0 Hc Hcnot Hr Hv0) as [L' Fvl'].
  pose proof (loop_vals T leb x c N b0 ring0 sorted0 HN Hb0len L0' Hring0 Hc Hcnot Hr Hv0) as Hv'.
  pose proof (fire_spec T leb x c N b0 ring0 sorted0 HN Hb0len L0' Hring0 Hc Hcnot Hr Hv0) as Hfire.
  pose proof (R_length T leb x c N b0 ring0 sorted0 HN Hb0len Hring0 Hc Hr Hv0) as HRlen.
  pose proof (b'_length T leb x c N b0 ring0 sorted0 Hb0len) as Hb'len.
  set (p := ipos T leb x sorted0) in *.
  set (R := ins_at p c ring0) in *.
  set (b' := link b0 c (at_ ring0 p) x) in *.
  set (sorted' := ins_at p x sorted0) in *.
  set (r := length sorted0) in *.
  assert (Hs'len : length sorted' = S r) by (unfold sorted'; apply ins_at_length).
  assert (Hple : p <= r) by (unfold p, r; apply ipos_le).
  assert (Hy : vl b' (at_ R (r / 2)) = Some (nth (r / 2) sorted' x)).
  { rewrite at_lt by (rewrite HRlen; lia). rewrite Hv' by lia.
    apply nth_error_lt_some. rewrite Hs'len. lia. }
  exists {| buffer := b'; cursor := (c + 1) mod N; head := if p =? 0 then c else h1; median := at_ R (r / 2) |},
         R, sorted'.
  split.
  - rewrite filter_unfold. rewrite Hmove. cbn [obind].
    rewrite remove_node_eq by (cbn [buffer cursor head median]; first [assumption|lia]).
    cbn [obind buffer cursor head median]. fold b0. rewrite Hb0len.
    rewrite Hh1. rewrite Hloop. cbn [obind].
    rewrite Hs'len. replace (S r - 1) with r by lia.
    rewrite <- Hh1.
    apply (finish_spec b' R N (r / 2) h1 c x _ (p =? 0)); auto.
    + lia.
    + rewrite Hh1. rewrite <- Hb0len. eapply linked_lt; [exact L0'|]. apply nth_In. lia.
    + rewrite Hh1. exact Hfire.
  - assert (Hvl' : forall i, i <> c -> vl b' i = vl b i).
    { intros i Hi. rewrite Fvl'. destruct (Nat.eqb_spec i c); [congruence|].
      rewrite Fvl0. destruct (Nat.eqb_spec i c); [congruence|]. reflexivity. }
    assert (Hvc' : vl b' c = Some x) by (rewrite Fvl', Nat.eqb_refl; reflexivity).
    split; cbn [buffer cursor head median].
    + exact Hb'len.
    + exact L'.
    + exact HRlen.
    + unfold R. rewrite nth_ins_at by lia. rewrite Hh1.
      destruct (Nat.eqb_spec p 0) as [E|E].
      * rewrite E. reflexivity.
      * destruct (Nat.ltb_spec 0 p); [reflexivity|lia].
    + exact Hv'.
    + rewrite Hwin. etransitivity; [apply ins_at_perm|].
      etransitivity; [apply perm_skip; exact Hperm0|]. apply Permutation_cons_append.
    + intros j Hj1 Hj2. rewrite app_length in Hj1, Hj2. simpl in Hj1, Hj2.
      destruct (Nat.eq_dec j (length hist)) as [E|E].
      * subst j. rewrite <- Hcur. rewrite Hvc'.
        rewrite nth_error_app2 by lia. rewrite Nat.sub_diag. reflexivity.
      * rewrite Hvl'.
        -- rewrite nth_error_app1 by lia. apply Hage; lia.
        -- rewrite Hcur. apply mod_ne_window; lia.
    + intros i Hi1 Hi2. rewrite app_length in Hi1. simpl in Hi1.
      assert (Ec : c = length hist) by (rewrite Hcur; apply Nat.mod_small; lia).
      rewrite Hvl' by lia. apply Hempty; lia.
    + rewrite app_length. simpl. rewrite Hcur. rewrite Nat.add_mod_idemp_l by lia. reflexivity.
    + intros _. rewrite Hs'len. replace (S r - 1) with r by lia. reflexivity.
    + intros tot. unfold sorted', p. rewrite <- sinsert_ins_at. apply ssorted_sinsert; auto.
      unfold sorted0. apply ssorted_remove_at. apply Hsorted. exact tot.
Qed.

Lemma Inv_step N s hist ring sorted x : 0 < N -> Inv N s hist ring sorted -> step_goal N s hist x.
Proof.
  intros HN I. destruct (Nat.eq_dec N 1) as [->|E].
  - eapply Inv_step_1; eauto.
  - eapply Inv_step_ge2; eauto. lia.
Qed.

Lemma reach N : 0 < N -> forall hist, exists s ring sorted,
  oexec (Median.filter leb) (init N) hist = Some s /\ Inv N s hist ring sorted.
Proof.
  intros HN hist. induction hist as [|x hist IH] using rev_ind.
  - exists (init N), (seq 0 N), []. split; [reflexivity|apply Inv_init; exact HN].
  - destruct IH as [s [ring [sorted [He I]]]].
    destruct (Inv_step N s hist ring sorted x HN I) as [s' [ring' [sorted' [Hf I']]]].
    exists s', ring', sorted'. split; [|exact I'].
    rewrite oexec_snoc, He, Hf. reflexivity.
Qed.

(* ---------- accessors, from the invariant ---------- *)
Lemma Inv_acc_min N s hist ring sorted d : 0 < N -> Inv N s hist ring sorted -> sorted <> [] ->
  acc_min s = Some (Some (hd d sorted)).
Proof.
  intros HN I Hne. unfold acc_min.
  assert (Hh : head s < length (buffer s)).
  { eapply linked_lt; [apply (i_lk _ _ _ _ _ I)|]. rewrite <- (i_head _ _ _ _ _ I).
    apply nth_In. rewrite (i_rlen _ _ _ _ _ I). exact HN. }
  rewrite getn_lt by exact Hh. cbn [obind]. fold (vl (buffer s) (head s)).
  rewrite <- (i_head _ _ _ _ _ I). rewrite (i_vals _ _ _ _ _ I) by exact HN.
  destruct sorted; [congruence|reflexivity].
Qed.

Lemma Inv_acc_median N s hist ring sorted d : 0 < N -> Inv N s hist ring sorted -> sorted <> [] ->
  acc_median s = Some (Some (nth ((length sorted - 1) / 2) sorted d)).
Proof.
  intros HN I Hne. unfold acc_median. rewrite (i_med _ _ _ _ _ I Hne).
  pose proof (Inv_sorted_len _ _ _ _ _ I) as Hl.
  assert (Hpos : 0 < length sorted) by (destruct sorted; [congruence|simpl; lia]).
  set (j := (length sorted - 1) / 2). assert (Hj : j < length sorted) by (unfold j; lia).
  assert (Hat : at_ ring j < length (buffer s)).
  { eapply linked_lt; [apply (i_lk _ _ _ _ _ I)|]. apply at_in. apply (lk_ne _ _ _ (i_lk _ _ _ _ _ I)). }
  rewrite getn_lt by exact Hat. cbn [obind]. fold (vl (buffer s) (at_ ring j)).
  rewrite at_lt by (rewrite (i_rlen _ _ _ _ _ I); lia).
  rewrite (i_vals _ _ _ _ _ I) by lia. rewrite (nth_error_lt_some sorted j d Hj). reflexivity.
Qed.

Lemma Inv_acc_max N s hist x ring sorted : 0 < N -> Inv N s (hist ++ [x]) ring sorted ->
  acc_max s = Some (Some x).
Proof.
  intros HN I. unfold acc_max. rewrite (i_len _ _ _ _ _ I).
  destruct (Nat.eqb_spec N 0); [lia|].
  rewrite (i_cur _ _ _ _ _ I). rewrite app_length. simpl length.
  rewrite <- (Nat.add_mod_idemp_l (length hist) 1 N) by lia.
  rewrite mod_pred_succ by (apply Nat.mod_upper_bound; lia).
  assert (Hlt : length hist mod N < length (buffer s)).
  { rewrite (i_len _ _ _ _ _ I). apply Nat.mod_upper_bound. lia. }
  rewrite getn_lt by exact Hlt. cbn [obind]. fold (vl (buffer s) (length hist mod N)).
  rewrite (i_age _ _ _ _ _ I) by (rewrite app_length; simpl; lia).
  rewrite nth_error_app2 by lia. rewrite Nat.sub_diag. reflexivity.
Qed.

Lemma Inv_sorted_ne N s hist x ring sorted : 0 < N -> Inv N s (hist ++ [x]) ring sorted -> sorted <> [].
Proof.
  intros HN I E. pose proof (Inv_sorted_len _ _ _ _ _ I) as Hl. rewrite E, app_length in Hl.
  simpl in Hl. lia.
Qed.

End Main.

(* ---------- the theorems ---------- *)
Lemma median_lower :
  forall (T : Type) (leb : T -> T -> bool), total_order leb ->
  forall N, 0 < N -> forall hist x,
  exists s s', oexec (Median.filter leb) (init N) hist = Some s /\
    Median.filter leb s x = Some (s', lower_median leb (lastn N (hist ++ [x])) x).
Proof.
  intros T leb tot N HN hist x.
  destruct (reach T leb N HN hist) as [s [ring [sorted [He I]]]].
  destruct (Inv_step T leb N s hist ring sorted x HN I) as [s' [ring' [sorted' [Hf I']]]].
  exists s, s'. split; [exact He|]. rewrite Hf. do 2 f_equal. unfold lower_median.
  pose proof (sorted_is_isort T leb tot sorted' _ (i_sorted _ _ _ _ _ _ _ I' tot) (i_perm _ _ _ _ _ _ _ I')) as Es.
  rewrite (Permutation_length (i_perm _ _ _ _ _ _ _ I')). rewrite <- Es. reflexivity.
Qed.

Lemma median_robust :
  forall (T : Type) (leb : T -> T -> bool) N, 0 < N -> forall hist x,
  exists s s' y, oexec (Median.filter leb) (init N) hist = Some s /\
    Median.filter leb s x = Some (s', y) /\ In y (lastn N (hist ++ [x])).
Proof.
  intros T leb N HN hist x.
  destruct (reach T leb N HN hist) as [s [ring [sorted [He I]]]].
  destruct (Inv_step T leb N s hist ring sorted x HN I) as [s' [ring' [sorted' [Hf I']]]].
  exists s, s', (nth ((length sorted' - 1) / 2) sorted' x). split; [exact He|]. split; [exact Hf|].
  eapply Permutation_in; [apply (i_perm _ _ _ _ _ _ _ I')|].
  pose proof (Inv_sorted_ne T leb N s' hist x ring' sorted' HN I') as Hne.
  apply nth_In. destruct sorted'; [congruence|]. simpl length. lia.
Qed.

Lemma acc_before_first :
  forall (T : Type) N, 0 < N ->
  acc_min (@init T N) = Some None /\ acc_median (@init T N) = Some None /\ acc_max (@init T N) = Some None.
Proof.
  intros T N HN.
  assert (H0 : getn T (buffer (@init T N)) 0 = Some (gt (buffer (@init T N)) 0))
    by (apply getn_lt; rewrite init_length; exact HN).
  unfold acc_min, acc_median, acc_max. rewrite init_length.
  change (head (@init T N)) with 0. change (median (@init T N)) with 0. change (cursor (@init T N)) with 0.
  rewrite H0. cbn [obind]. rewrite gt_init by exact HN. cbn [value].
  repeat split.
  destruct (Nat.eqb_spec N 0); [lia|].
  assert (Hm : (0 + N - 1) mod N < N) by (apply Nat.mod_upper_bound; lia).
  rewrite getn_lt by (rewrite init_length; exact Hm). cbn [obind].
  rewrite gt_init by exact Hm. reflexivity.
Qed.

Lemma acc_min_median :
  forall (T : Type) (leb : T -> T -> bool), total_order leb ->
  forall N, 0 < N -> forall hist x,
  let w := lastn N (hist ++ [x]) in
  exists s s' y, oexec (Median.filter leb) (init N) hist = Some s /\
    Median.filter leb s x = Some (s', y) /\
    acc_min s' = Some (Some (window_min leb w x)) /\
    acc_median s' = Some (Some (lower_median leb w x)).
Proof.
  intros T leb tot N HN hist x w.
  destruct (reach T leb N HN hist) as [s [ring [sorted [He I]]]].
  destruct (Inv_step T leb N s hist ring sorted x HN I) as [s' [ring' [sorted' [Hf I']]]].
  exists s, s', (nth ((length sorted' - 1) / 2) sorted' x). split; [exact He|]. split; [exact Hf|].
  pose proof (Inv_sorted_ne T leb N s' hist x ring' sorted' HN I') as Hne.
  pose proof (sorted_is_isort T leb tot sorted' _ (i_sorted _ _ _ _ _ _ _ I' tot) (i_perm _ _ _ _ _ _ _ I')) as Es.
  fold w in Es. split.
  - rewrite (Inv_acc_min T leb N s' _ ring' sorted' x HN I' Hne). unfold window_min. rewrite Es. reflexivity.
  - rewrite (Inv_acc_median T leb N s' _ ring' sorted' x HN I' Hne). unfold lower_median.
    rewrite (Permutation_length (i_perm _ _ _ _ _ _ _ I')). fold w. rewrite <- Es. reflexivity.
Qed.

Lemma acc_max_is_newest :
  forall (T : Type) (leb : T -> T -> bool) N, 0 < N -> forall hist x,
  exists s s' y, oexec (Median.filter leb) (init N) hist = Some s /\
    Median.filter leb s x = Some (s', y) /\ acc_max s' = Some (Some x).
Proof.
  intros T leb N HN hist x.
  destruct (reach T leb N HN hist) as [s [ring [sorted [He I]]]].
  destruct (Inv_step T leb N s hist ring sorted x HN I) as [s' [ring' [sorted' [Hf I']]]].
  exists s, s', (nth ((length sorted' - 1) / 2) sorted' x). split; [exact He|]. split; [exact Hf|].
  eapply Inv_acc_max; eauto.
Qed.

Lemma acc_max_partial :
  forall (T : Type) (leb : T -> T -> bool), total_order leb ->
  forall N, 0 < N -> forall hist x,
  let w := lastn N (hist ++ [x]) in
  (forall v, In v w -> leb v x = true) ->
  exists s s' y, oexec (Median.filter leb) (init N) hist = Some s /\
    Median.filter leb s x = Some (s', y) /\ acc_max s' = Some (Some (window_max leb w x)).
Proof.
  intros T leb tot N HN hist x w Hmax.
  destruct (acc_max_is_newest T leb N HN hist x) as [s [s' [y [He [Hf Ha]]]]].
  exists s, s', y. split; [exact He|]. split; [exact Hf|]. rewrite Ha. do 2 f_equal.
  unfold window_max.
  assert (Hx : In x (isort leb w)).
  { eapply Permutation_in; [symmetry; apply isort_perm|]. apply lastn_snoc_in. exact HN. }
  assert (Hne : isort leb w <> []) by (intros E; rewrite E in Hx; destruct Hx).
  destruct (ssorted_last_max T leb (isort leb w) x x (ssorted_isort T leb tot w) Hx) as [E|E]; [exact E|].
  destruct tot as [_ [_ Hanti]]. apply Hanti; [exact E|].
  apply Hmax. eapply Permutation_in; [apply isort_perm|]. apply last_in. exact Hne.
Qed.

Lemma acc_max_refuted :
  exists s s' y, oexec (Median.filter zleb) (init 3) [1; 9]%Z = Some s /\
    Median.filter zleb s 3%Z = Some (s', y) /\
    acc_max s' = Some (Some 3%Z) /\ window_max zleb [1; 9; 3]%Z 0%Z = 9%Z.
Proof.
  eexists. eexists. eexists. split; [vm_compute; reflexivity|].
  split; [vm_compute; reflexivity|]. split; vm_compute; reflexivity.
Qed.
