From Signalo Require Import Base.QR Base.Opt Base.Machine Model.Registry.

(* C12: resetting after ANY history gives exactly the freshly constructed state for the same
   configuration (so every later output equals a fresh filter's; the configuration is an argument
   that reset does not touch) *)
Definition reset_fresh (m : machine) : Prop :=
  forall c hist s, oexec (mstep m c) (minit m c) hist = Some s -> mreset m c s = minit m c.

Ltac triv := intros c hist s _; reflexivity.
Lemma rf_mean : reset_fresh m_mean. Proof. triv. Qed.
Lemma rf_mean_variance : reset_fresh m_mean_variance. Proof. triv. Qed.
Lemma rf_exp_mean : reset_fresh m_exp_mean. Proof. triv. Qed.
Lemma rf_exp_mean_variance : reset_fresh m_exp_mean_variance. Proof. triv. Qed.
Lemma rf_median : reset_fresh m_median. Proof. triv. Qed.
Lemma rf_exp_median : reset_fresh m_exp_median. Proof. triv. Qed.
Lemma rf_max : reset_fresh m_max. Proof. triv. Qed.
Lemma rf_min : reset_fresh m_min. Proof. triv. Qed.
Lemma rf_bounds : reset_fresh m_bounds. Proof. triv. Qed.
Lemma rf_threshold : reset_fresh m_threshold. Proof. intros c hist [] _. reflexivity. Qed.
Lemma rf_schmitt : reset_fresh m_schmitt. Proof. triv. Qed.
Lemma rf_debounce : reset_fresh m_debounce. Proof. triv. Qed.
Lemma rf_slopes : reset_fresh m_slopes. Proof. triv. Qed.
Lemma rf_peaks : reset_fresh m_peaks. Proof. triv. Qed.
Lemma rf_convolve : reset_fresh m_convolve. Proof. triv. Qed.
Lemma rf_delay : reset_fresh m_delay. Proof. triv. Qed.
Lemma rf_differentiate : reset_fresh m_differentiate. Proof. triv. Qed.
Lemma rf_integrate : reset_fresh m_integrate. Proof. triv. Qed.
Lemma rf_hampel : reset_fresh m_hampel. Proof. triv. Qed.
Lemma rf_alpha_beta : reset_fresh m_alpha_beta. Proof. triv. Qed.
Lemma rf_kalman : reset_fresh m_kalman. Proof. triv. Qed.
Lemma rf_analyze : reset_fresh m_analyze. Proof. triv. Qed.
Lemma rf_synthesize : reset_fresh m_synthesize. Proof. triv. Qed.
Lemma rf_peaks_slopes : reset_fresh m_peaks_slopes. Proof. triv. Qed.
Lemma rf_id : reset_fresh m_id. Proof. intros c hist [] _. reflexivity. Qed.

(* the wrapped machine's state component follows the inner machine *)
Lemma cache_inner m c hist s :
  oexec (mstep (m_cache m) c) (minit (m_cache m) c) hist = Some s ->
  oexec (mstep m c) (minit m c) hist = Some (fst s).
Proof.
  assert (G : forall s0 s1, oexec (mstep (m_cache m) c) s0 hist = Some s1 -> oexec (mstep m c) (fst s0) hist = Some (fst s1)).
  { induction hist as [|x hist IH]; intros s0 s1 H; cbn [oexec] in *.
    - injection H as <-. reflexivity.
    - cbn [mstep m_cache] in H. destruct (mstep m c (fst s0) x) as [[s' o]|]; [|discriminate].
      cbn [obind] in H. apply (IH _ _ H). }
  intros H. apply (G _ _ H).
Qed.
Lemma rf_cache m : reset_fresh m -> reset_fresh (m_cache m).
Proof.
  intros Hm c hist s H. cbn [mreset m_cache minit]. rewrite (Hm c hist (fst s) (cache_inner m c hist s H)). reflexivity.
Qed.
Lemma rf_unit m : reset_fresh m -> reset_fresh (m_unit m).
Proof. intros Hm c hist s H. apply (Hm c hist s H). Qed.

Theorem registry_reset_fresh : Forall reset_fresh registry.
Proof.
  unfold registry. repeat constructor;
  first [ apply rf_mean | apply rf_mean_variance | apply rf_exp_mean | apply rf_exp_mean_variance | apply rf_median
        | apply rf_exp_median | apply rf_max | apply rf_min | apply rf_bounds | apply rf_threshold | apply rf_schmitt
        | apply rf_debounce | apply rf_slopes | apply rf_peaks | apply rf_convolve | apply rf_delay | apply rf_differentiate
        | apply rf_integrate | apply rf_hampel | apply rf_alpha_beta | apply rf_kalman | apply rf_analyze | apply rf_synthesize
        | (apply rf_cache; first [apply rf_integrate | apply rf_median]) | (apply rf_unit; apply rf_integrate) | apply rf_id | apply rf_peaks_slopes ].
Qed.

(* the observable consequence: history, reset, probe  =  fresh filter, probe *)
Theorem reset_then_probe m : reset_fresh m -> forall c hist s probe,
  oexec (mstep m c) (minit m c) hist = Some s ->
  orun (mstep m c) (mreset m c s) probe = orun (mstep m c) (minit m c) probe.
Proof. intros Hm c hist s probe H. rewrite (Hm c hist s H). reflexivity. Qed.

(* C20: copies *)
Theorem copy_continues m c (s : St m) xs :
  let '(a, b) := mclone m s in
  orun (mstep m c) a xs = orun (mstep m c) s xs /\ orun (mstep m c) b xs = orun (mstep m c) s xs /\
  mguts m s = s.
Proof. cbn. repeat split. Qed.
(* feeding one copy never affects the other: a copy's outputs depend on its own inputs only *)
Theorem copies_independent m c (s : St m) xs ys :
  let '(a, b) := mclone m s in
  orun (mstep m c) b ys = orun (mstep m c) s ys /\
  (forall a', oexec (mstep m c) a xs = Some a' -> orun (mstep m c) b ys = orun (mstep m c) s ys).
Proof. cbn. split; [reflexivity | intros; reflexivity]. Qed.

(* C20: the caching wrapper returns exactly what the wrapped filter returns and remembers only the
   most recent result *)
Theorem cache_transparent m c xs :
  forall s0 k0, orun (mstep (m_cache m) c) (s0, k0) xs = orun (mstep m c) s0 xs.
Proof.
  induction xs as [|x xs IH]; intros s0 k0; cbn [orun]; [reflexivity|].
  cbn [mstep m_cache fst]. destruct (mstep m c s0 x) as [[s' o]|]; cbn [obind]; [|reflexivity].
  rewrite IH. reflexivity.
Qed.
Theorem cache_remembers_last m c hist x s ys :
  oexec (mstep (m_cache m) c) (minit (m_cache m) c) (hist ++ [x]) = Some s ->
  orun (mstep (m_cache m) c) (minit (m_cache m) c) (hist ++ [x]) = Some ys ->
  cached s = Some (last ys []) /\ cached (minit (m_cache m) c) = None.
Proof.
  intros He Hr. split; [|reflexivity].
  rewrite oexec_app in He. rewrite orun_app in Hr.
  destruct (oexec (mstep (m_cache m) c) (minit (m_cache m) c) hist) as [s1|]; [|discriminate].
  destruct (orun (mstep (m_cache m) c) (minit (m_cache m) c) hist) as [y1|]; [|discriminate].
  cbn [oexec orun] in He, Hr. cbn [mstep m_cache] in He, Hr.
  destruct (mstep m c (fst s1) x) as [[s' o]|]; [|discriminate]. cbn [obind] in He, Hr.
  injection He as <-. injection Hr as <-. rewrite last_last. reflexivity.
Qed.
(* the unit-preserving wrapper is the inner filter on the unit-less value (the unit itself is a type
   parameter that `map_unsafe` keeps: rustc's guarantee) *)
Theorem unit_transparent m c s xs : orun (mstep (m_unit m) c) s xs = orun (mstep m c) s xs.
Proof. reflexivity. Qed.
