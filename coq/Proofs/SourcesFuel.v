(* C10, fuel layer: [pull false] is total once the fuel reaches [need s] <= [height s], does not
   depend on the fuel beyond that, and never increases [need]; hence a total, fuel-free step
   function [next] with one unfolding equation per adapter state. *)
From Coq Require Import ZArith List Bool Lia.
From Signalo Require Import Model.Sources.
Import ListNotations.

Definition res := (option Z * src)%type.

(* the body of [pull false (S fuel)], with the recursive call abstracted *)
Definition skip_loop (rec : src -> option res) :=
  fix loop (c : nat) (i : src) : option src :=
    match c with
    | 0 => Some i
    | S c' => '(o, i') <- rec i ;;
              match o with Some _ => loop c' i' | None => Some i' end
    end.

Definition step (rec : src -> option res) (s : src) : option res :=
  match s with
  | FromList [] => Some (None, s)
  | FromList (x :: r) => Some (Some x, FromList r)
  | Chain f b false =>
      '(o, f') <- rec f ;;
      match o with
      | Some v => Some (Some v, Chain f' b false)
      | None => '(o2, b') <- rec b ;; Some (o2, Chain f' b' true)
      end
  | Chain f b true => '(o, b') <- rec b ;; Some (o, Chain f b' true)
  | Take i 0 => Some (None, s)
  | Take i (S c) => '(o, i') <- rec i ;; Some (o, Take i' c)
  | Skip i c =>
      i1 <- skip_loop rec c i ;;
      '(o, i2) <- rec i1 ;; Some (o, Skip i2 0)
  | Cycle orig cur =>
      '(o, cur') <- rec cur ;;
      match o with
      | None => '(o2, c2) <- rec orig ;; Some (o2, Cycle orig c2)
      | Some v => Some (Some v, Cycle orig cur')
      end
  | Constant v => Some (Some v, s)
  | Repeat v 0 => Some (None, s)
  | Repeat v (S c) => Some (Some v, Repeat v c)
  | Increment st d => Some (Some st, Increment (st + d) d)
  | PadConst i v f b CFront =>
      match f with
      | S f' => Some (Some v, PadConst i v f' b CFront)
      | 0 => rec (PadConst i v 0 b CInner)
      end
  | PadConst i v f b CInner =>
      '(o, i') <- rec i ;;
      match o with
      | Some x => Some (Some x, PadConst i' v f b CInner)
      | None => rec (PadConst i' v f b CBack)
      end
  | PadConst i v f b CBack =>
      match b with
      | S b' => Some (Some v, PadConst i v f b' CBack)
      | 0 => Some (None, s)
      end
  | PadEdge i c Before =>
      '(o, i') <- rec i ;;
      match o with
      | Some v => Some (Some v, PadEdge i' c (Front v c))
      | None => Some (None, PadEdge i' c After)
      end
  | PadEdge i c (Front first (S r)) => Some (Some first, PadEdge i c (Front first r))
  | PadEdge i c (Front first 0) =>
      '(o, i') <- rec i ;;
      match o with
      | Some v => Some (Some v, PadEdge i' c (Inner v))
      | None =>
          match c with
          | S c' => Some (Some first, PadEdge i' c (Back first c'))
          | 0 => Some (None, PadEdge i' c (Back first 0))
          end
      end
  | PadEdge i c (Inner last) =>
      '(o, i') <- rec i ;;
      match o with
      | Some v => Some (Some v, PadEdge i' c (Inner v))
      | None =>
          match c with
          | S c' => Some (Some last, PadEdge i' c (Back last c'))
          | 0 => Some (None, PadEdge i' c (Back last 0))
          end
      end
  | PadEdge i c (Back last (S r)) => Some (Some last, PadEdge i c (Back last r))
  | PadEdge i c (Back last 0) => Some (None, PadEdge i c After)
  | PadEdge i c After => Some (None, s)
  | Peek i (Some o) => Some (o, Peek i None)
  | Peek i None => '(o, i') <- rec i ;; Some (o, Peek i' None)
  | Cache i _ => '(o, i') <- rec i ;; Some (o, Cache i' o)
  | RoundTrip i => '(o, i') <- rec i ;; Some (o, RoundTrip i')
  end.

Lemma pull_S : forall fuel s, pull false (S fuel) s = step (pull false fuel) s.
Proof. reflexivity. Qed.
Lemma pull_0 : forall s, pull false 0 s = None.
Proof. reflexivity. Qed.

(* the fuel a state really needs *)
Fixpoint need (s : src) : nat :=
  match s with
  | FromList _ | Constant _ | Repeat _ _ | Increment _ _ => 1
  | Chain f b _ => S (Nat.max (need f) (need b))
  | Take i _ | Skip i _ | Peek i _ | Cache i _ | RoundTrip i => S (need i)
  | Cycle o c => S (Nat.max (need o) (need c))
  | PadConst i _ _ _ ph => match ph with CFront => 3 | CInner => 2 | CBack => 1 end + need i
  | PadEdge i _ _ => S (need i)
  end.

Lemma need_height : forall s, need s <= height s.
Proof. induction s; simpl; try destruct ph; lia. Qed.
Lemma need_pos : forall s, 1 <= need s.
Proof. destruct s; simpl; try destruct ph; lia. Qed.

(* ---- monotonicity in the recursive call ---- *)
Lemma obind_Some : forall {A B} (o : option A) (f : A -> option B) r,
  obind o f = Some r -> exists a, o = Some a /\ f a = Some r.
Proof. destruct o; simpl; intros; [eauto | discriminate]. Qed.

Section Mono.
Variables rec1 rec2 : src -> option res.
Hypothesis Hrec : forall x r, rec1 x = Some r -> rec2 x = Some r.

Lemma skip_loop_mono : forall c i r, skip_loop rec1 c i = Some r -> skip_loop rec2 c i = Some r.
Proof.
  induction c; simpl; intros i r H; auto.
  apply obind_Some in H. destruct H as ([o i'] & E & H).
  rewrite (Hrec _ _ E). simpl. destruct o; auto.
Qed.

Ltac mono_tac :=
  repeat match goal with
  | H : obind (rec1 ?x) _ = Some _ |- _ =>
      let E := fresh "E" in let o := fresh "o" in let y := fresh "y" in
      apply obind_Some in H; destruct H as ([o y] & E & H);
      rewrite (Hrec _ _ E); cbn [obind]; try (destruct o)
  | H : obind (skip_loop rec1 ?c ?x) _ = Some _ |- _ =>
      let E := fresh "E" in let y := fresh "y" in
      apply obind_Some in H; destruct H as (y & E & H);
      rewrite (skip_loop_mono _ _ _ E); cbn [obind]
  end.

Lemma step_mono : forall s r, step rec1 s = Some r -> step rec2 s = Some r.
Proof.
  intros s r H.
  destruct s as [l|f b fl|i c|i c|o c| v|v c|st d|i v f b ph|i c ph|i pk|i ch|i]; cbn [step] in *.
  - exact H.
  - destruct fl; mono_tac; auto.
  - destruct c; mono_tac; auto.
  - mono_tac; auto.
  - mono_tac; auto.
  - exact H.
  - exact H.
  - exact H.
  - destruct ph; [destruct f | | ]; mono_tac; auto.
  - destruct ph as [|fi r0|la|la r0|]; [ | destruct r0 | | | ]; mono_tac; auto.
  - destruct pk; mono_tac; auto.
  - mono_tac; auto.
  - mono_tac; auto.
Qed.
End Mono.

Lemma pull_mono_S : forall fuel s r, pull false fuel s = Some r -> pull false (S fuel) s = Some r.
Proof.
  induction fuel; intros s r H.
  - discriminate.
  - rewrite pull_S in *. eapply step_mono; [ | exact H]. exact (IHfuel).
Qed.
Lemma pull_mono : forall fuel fuel' s r, fuel <= fuel' -> pull false fuel s = Some r -> pull false fuel' s = Some r.
Proof. induction 1; auto using pull_mono_S. Qed.

(* ---- totality ---- *)
Definition total_at (rec : src -> option res) (x : src) :=
  exists o x', rec x = Some (o, x') /\ need x' <= need x.

Section Total.
Variable rec : src -> option res.

Lemma skip_loop_total : forall c i, (forall x, need x <= need i -> total_at rec x) ->
  exists i1, skip_loop rec c i = Some i1 /\ need i1 <= need i.
Proof.
  induction c; simpl; intros i H; eauto.
  destruct (H i (le_n _)) as (o & i' & E & Hn). rewrite E. simpl.
  destruct o; eauto.
  destruct (IHc i') as (i1 & E1 & H1). { intros; apply H; lia. }
  exists i1; split; auto; lia.
Qed.

Lemma step_total : forall s, (forall x, need x < need s -> total_at rec x) -> total_at (step rec) s.
Proof.
  intros s H. unfold total_at in *.
  Ltac tot_tac H :=
    repeat match goal with
    | |- context [obind (rec ?x) _] =>
        let o := fresh "o" in let y := fresh "y" in let E := fresh "E" in let Hn := fresh "Hn" in
        destruct (H x) as (o & y & E & Hn); [simpl in *; lia | rewrite E; cbn [obind]; try destruct o]
    end;
    try (eexists _, _; split; [reflexivity | simpl in *; lia]).
  destruct s as [l|f b fl|i c|i c|o c| v|v c|st d|i v f b ph|i c ph|i pk|i ch|i]; cbn [step].
  - destruct l; tot_tac H.
  - destruct fl; tot_tac H.
  - destruct c; tot_tac H.
  - destruct (skip_loop_total c i) as (i1 & E1 & H1).
    { intros; apply H; simpl; lia. }
    rewrite E1; cbn [obind]. simpl in H. tot_tac H.
  - tot_tac H.
  - tot_tac H.
  - destruct c; tot_tac H.
  - tot_tac H.
  - destruct ph; [destruct f | | destruct b]; tot_tac H.
    + destruct (H (PadConst i v 0 b CInner)) as (o & y & E & Hn); [simpl; lia|].
      exists o, y; split; auto. simpl in *; lia.
    + destruct (H (PadConst y v f b CBack)) as (o & z & E1 & Hn1); [simpl; lia|].
      exists o, z; split; auto. simpl in *; lia.
  - destruct ph as [|fi r0|la|la r0|]; [ | destruct r0 | | destruct r0 | ]; tot_tac H; destruct c; tot_tac H.
  - destruct pk; tot_tac H.
  - tot_tac H.
  - tot_tac H.
Qed.
End Total.

Lemma pull_total : forall fuel s, need s <= fuel -> total_at (pull false fuel) s.
Proof.
  induction fuel; intros s H.
  - pose proof (need_pos s); lia.
  - unfold total_at. rewrite pull_S. apply step_total. intros x Hx. apply IHfuel. lia.
Qed.

(* ---- the fuel-free step function ---- *)
Definition next (s : src) : res :=
  match pull false (height s) s with Some r => r | None => (None, s) end.

Lemma pull_next : forall fuel s, need s <= fuel -> pull false fuel s = Some (next s).
Proof.
  intros fuel s H. unfold next.
  destruct (pull_total fuel s H) as (o & s' & E & _).
  rewrite E.
  destruct (Nat.le_ge_cases fuel (height s)).
  - rewrite (pull_mono _ _ _ _ H0 E). reflexivity.
  - destruct (pull_total (height s) s (need_height s)) as (o1 & s1 & E1 & _).
    rewrite E1. rewrite (pull_mono _ _ _ _ H0 E1) in E. symmetry; exact E.
Qed.

Lemma pull_height : forall s, pull false (height s) s = Some (next s).
Proof. intros; apply pull_next, need_height. Qed.

Lemma need_next : forall s, need (snd (next s)) <= need s.
Proof.
  intros s. destruct (pull_total (need s) s (le_n _)) as (o & s' & E & Hn).
  rewrite pull_next in E by lia. inversion E. rewrite H0. exact Hn.
Qed.

Definition nrec (x : src) : option res := Some (next x).

Lemma next_step : forall s, step nrec s = Some (next s).
Proof.
  intros s. pose proof (need_pos s) as Hp.
  destruct (need s) as [|m] eqn:En; [lia|].
  assert (E : pull false (S m) s = Some (next s)) by (apply pull_next; lia).
  rewrite pull_S in E.
  eapply step_mono; [ | exact E].
  intros x r Hx. unfold nrec.
  rewrite <- (pull_next (Nat.max m (need x)) x) by lia.
  eapply pull_mono; [ | exact Hx]. lia.
Qed.

(* ---- unfolding equations for [next] ---- *)
Fixpoint skiploop (c : nat) (i : src) : src :=
  match c with
  | 0 => i
  | S c' => match next i with
            | (Some _, i') => skiploop c' i'
            | (None, i') => i'
            end
  end.

Lemma skip_loop_nrec : forall c i, skip_loop nrec c i = Some (skiploop c i).
Proof.
  induction c; simpl; intros; auto.
  unfold nrec at 1. simpl. destruct (next i) as [[v|] i']; auto.
Qed.

Ltac next_eq s :=
  let H := fresh in
  pose proof (next_step s) as H; cbn [step] in H; unfold nrec in H; cbn [obind] in H;
  repeat match type of H with context [next ?x] =>
    lazymatch x with s => fail | _ => destruct (next x) as [[?|] ?]; cbn [obind] in H end end;
  congruence.

Lemma next_FromList_nil : next (FromList []) = (None, FromList []).
Proof. next_eq (FromList []). Qed.
Lemma next_FromList_cons : forall x r, next (FromList (x :: r)) = (Some x, FromList r).
Proof. intros; next_eq (FromList (x :: r)). Qed.
Lemma next_Constant : forall v, next (Constant v) = (Some v, Constant v).
Proof. intros; next_eq (Constant v). Qed.
Lemma next_Repeat_0 : forall v, next (Repeat v 0) = (None, Repeat v 0).
Proof. intros; next_eq (Repeat v 0). Qed.
Lemma next_Repeat_S : forall v c, next (Repeat v (S c)) = (Some v, Repeat v c).
Proof. intros; next_eq (Repeat v (S c)). Qed.
Lemma next_Increment : forall a d, next (Increment a d) = (Some a, Increment (a + d) d).
Proof. intros; next_eq (Increment a d). Qed.

Lemma next_Chain_front : forall f b,
  next (Chain f b false) =
  match next f with
  | (Some v, f') => (Some v, Chain f' b false)
  | (None, f') => let '(o2, b') := next b in (o2, Chain f' b' true)
  end.
Proof. intros; next_eq (Chain f b false). Qed.
Lemma next_Chain_back : forall f b,
  next (Chain f b true) = let '(o, b') := next b in (o, Chain f b' true).
Proof. intros; next_eq (Chain f b true). Qed.
Lemma next_Take_0 : forall i, next (Take i 0) = (None, Take i 0).
Proof. intros; next_eq (Take i 0). Qed.
Lemma next_Take_S : forall i c, next (Take i (S c)) = let '(o, i') := next i in (o, Take i' c).
Proof. intros; next_eq (Take i (S c)). Qed.
Lemma next_Skip : forall i c,
  next (Skip i c) = let '(o, i2) := next (skiploop c i) in (o, Skip i2 0).
Proof.
  intros. pose proof (next_step (Skip i c)) as H. cbn [step] in H.
  rewrite skip_loop_nrec in H. unfold nrec in H. cbn [obind] in H.
  destruct (next (skiploop c i)) as [o i2]. congruence.
Qed.
Lemma next_Cycle : forall orig cur,
  next (Cycle orig cur) =
  match next cur with
  | (Some v, cur') => (Some v, Cycle orig cur')
  | (None, _) => let '(o2, c2) := next orig in (o2, Cycle orig c2)
  end.
Proof. intros; next_eq (Cycle orig cur). Qed.
Lemma next_PadConst_front_S : forall i v f b,
  next (PadConst i v (S f) b CFront) = (Some v, PadConst i v f b CFront).
Proof. intros; next_eq (PadConst i v (S f) b CFront). Qed.
Lemma next_PadConst_front_0 : forall i v b,
  next (PadConst i v 0 b CFront) = next (PadConst i v 0 b CInner).
Proof. intros; next_eq (PadConst i v 0 b CFront). Qed.
Lemma next_PadConst_inner : forall i v f b,
  next (PadConst i v f b CInner) =
  match next i with
  | (Some x, i') => (Some x, PadConst i' v f b CInner)
  | (None, i') => next (PadConst i' v f b CBack)
  end.
Proof.
  intros. pose proof (next_step (PadConst i v f b CInner)) as H. cbn [step] in H.
  unfold nrec in H. cbn [obind] in H. destruct (next i) as [[x|] i']; cbn [obind] in H; congruence.
Qed.
Lemma next_PadConst_back_S : forall i v f b,
  next (PadConst i v f (S b) CBack) = (Some v, PadConst i v f b CBack).
Proof. intros; next_eq (PadConst i v f (S b) CBack). Qed.
Lemma next_PadConst_back_0 : forall i v f,
  next (PadConst i v f 0 CBack) = (None, PadConst i v f 0 CBack).
Proof. intros; next_eq (PadConst i v f 0 CBack). Qed.

Lemma next_PadEdge_before : forall i c,
  next (PadEdge i c Before) =
  match next i with
  | (Some v, i') => (Some v, PadEdge i' c (Front v c))
  | (None, i') => (None, PadEdge i' c After)
  end.
Proof. intros; next_eq (PadEdge i c Before). Qed.
Lemma next_PadEdge_front_S : forall i c fi r,
  next (PadEdge i c (Front fi (S r))) = (Some fi, PadEdge i c (Front fi r)).
Proof. intros; next_eq (PadEdge i c (Front fi (S r))). Qed.
Lemma next_PadEdge_inner : forall i c la,
  next (PadEdge i c (Inner la)) =
  match next i with
  | (Some v, i') => (Some v, PadEdge i' c (Inner v))
  | (None, i') => match c with
                  | S c' => (Some la, PadEdge i' c (Back la c'))
                  | 0 => (None, PadEdge i' c (Back la 0))
                  end
  end.
Proof. intros i c la; destruct c as [|c']; [next_eq (PadEdge i 0 (Inner la)) | next_eq (PadEdge i (S c') (Inner la))]. Qed.
Lemma next_PadEdge_front_0 : forall i c fi,
  next (PadEdge i c (Front fi 0)) =
  match next i with
  | (Some v, i') => (Some v, PadEdge i' c (Inner v))
  | (None, i') => match c with
                  | S c' => (Some fi, PadEdge i' c (Back fi c'))
                  | 0 => (None, PadEdge i' c (Back fi 0))
                  end
  end.
Proof. intros i c fi; destruct c as [|c']; [next_eq (PadEdge i 0 (Front fi 0)) | next_eq (PadEdge i (S c') (Front fi 0))]. Qed.
Lemma next_PadEdge_back_S : forall i c la r,
  next (PadEdge i c (Back la (S r))) = (Some la, PadEdge i c (Back la r)).
Proof. intros; next_eq (PadEdge i c (Back la (S r))). Qed.
Lemma next_PadEdge_back_0 : forall i c la,
  next (PadEdge i c (Back la 0)) = (None, PadEdge i c After).
Proof. intros; next_eq (PadEdge i c (Back la 0)). Qed.
Lemma next_PadEdge_after : forall i c, next (PadEdge i c After) = (None, PadEdge i c After).
Proof. intros; next_eq (PadEdge i c After). Qed.

Lemma next_Peek_some : forall i o, next (Peek i (Some o)) = (o, Peek i None).
Proof. intros; next_eq (Peek i (Some o)). Qed.
Lemma next_Peek_none : forall i, next (Peek i None) = let '(o, i') := next i in (o, Peek i' None).
Proof. intros; next_eq (Peek i None). Qed.
Lemma next_Cache : forall i c, next (Cache i c) = let '(o, i') := next i in (o, Cache i' o).
Proof. intros; next_eq (Cache i c). Qed.
Lemma next_RoundTrip : forall i, next (RoundTrip i) = let '(o, i') := next i in (o, RoundTrip i').
Proof. intros; next_eq (RoundTrip i). Qed.

Global Opaque next.
Global Arguments next : simpl never.
