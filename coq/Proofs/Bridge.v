(* Bridges: the boolean specs evaluated by the correspondence check hold of the MODELS on every input;
   each is a corollary of a Prop-level theorem. *)
From Coq Require Import ZArith NArith Morphisms.
From Signalo Require Import Base.QR Base.ListX Base.Machine Base.Opt.
From Signalo Require Model.Mean Model.Bounds Model.Smooth Model.Sources.
From Signalo Require Spec.C03 Spec.C04 Spec.C10 Check.Common Check.C15.
From Signalo Require Proofs.Mean Proofs.Bounds Proofs.DiffInt.

(* ---------- generic facts about [run] and prefixes ---------- *)
Section RunX.
Context {S X Y : Type}.
Variable step : S -> X -> S * Y.

Lemma run_firstn n s xs : run step s (firstn n xs) = firstn n (run step s xs).
Proof.
  revert s xs; induction n as [|n IH]; intros s xs; [reflexivity|].
  destruct xs as [|x r]; [reflexivity|]. cbn [firstn run]. rewrite IH. reflexivity.
Qed.

(* the k-th output is the output for the k-th sample after the first k samples *)
Lemma nth_run n s xs dx dy : (n < length xs)%nat ->
  nth n (run step s xs) dy = last_out step s (firstn n xs) (nth n xs dx).
Proof.
  revert s xs; induction n as [|n IH]; intros s xs H.
  - destruct xs as [|x r]; [cbn in H; lia|]. reflexivity.
  - destruct xs as [|x r]; [cbn in H; lia|]. cbn [length] in H.
    cbn [run nth firstn]. rewrite (IH (fst (step s x)) r) by lia. reflexivity.
Qed.
End RunX.

Lemma firstn_S_nth {A} n (l : list A) d : (n < length l)%nat -> firstn (S n) l = firstn n l ++ [nth n l d].
Proof.
  revert l; induction n as [|n IH]; intros l H.
  - destruct l as [|a r]; [cbn in H; lia|]. reflexivity.
  - destruct l as [|a r]; [cbn in H; lia|]. cbn [length] in H.
    change (firstn (S (S n)) (a :: r)) with (a :: firstn (S n) r).
    rewrite (IH r) by lia. reflexivity.
Qed.

(* ---------- C03 ---------- *)
Lemma bridge_c03_div (div : Q -> Q -> Q) : Proper (Qeq ==> Qeq ==> Qeq) div ->
  forall N xs, (0 < N)%nat ->
  Signalo.Spec.C03.mean_spec_okb div N xs (run (Signalo.Model.Mean.step div N false) Signalo.Model.Mean.init xs) = true.
Proof.
  intros Hp N xs HN. unfold Signalo.Spec.C03.mean_spec_okb.
  rewrite run_length, Nat.sub_diag. apply andb_true_intro. split; [apply Nat.leb_le; lia|].
  apply forallb_forall. intros k Hk. apply in_seq in Hk. cbn [Nat.add].
  unfold qeqb. apply Qeq_bool_iff.
  rewrite (nth_run _ k _ xs 0 0) by lia.
  rewrite (Signalo.Proofs.Mean.mean_window div Hp N HN). cbv zeta.
  unfold Signalo.Spec.C03.mean_spec_at. cbv zeta.
  rewrite (firstn_S_nth k xs 0) by lia. reflexivity.
Qed.

Lemma bridge_c03 : forall N xs, (0 < N)%nat ->
  Signalo.Spec.C03.mean_spec_okb rdiv N xs (run (Signalo.Model.Mean.step rdiv N false) Signalo.Model.Mean.init xs) = true /\
  Signalo.Spec.C03.mean_spec_okb Signalo.Model.Mean.qquot N xs
    (run (Signalo.Model.Mean.step Signalo.Model.Mean.qquot N false) Signalo.Model.Mean.init xs) = true.
Proof.
  intros N xs HN. split.
  - apply (bridge_c03_div rdiv Signalo.Proofs.Mean.rdiv_proper' N xs HN).
  - apply (bridge_c03_div Signalo.Model.Mean.qquot Signalo.Proofs.Mean.qquot_proper N xs HN).
Qed.

(* ---------- C04 ---------- *)
Lemma is_max_is_maxb {T} (leb eqb : T -> T -> bool) (eqb_refl : forall a, eqb a a = true) w y :
  Signalo.Spec.C04.is_max leb w y -> Signalo.Spec.C04.is_maxb leb eqb w y = true.
Proof.
  intros [Hin Hall]. unfold Signalo.Spec.C04.is_maxb. apply andb_true_intro. split.
  - apply existsb_exists. exists y. split; [exact Hin|apply eqb_refl].
  - apply forallb_forall. exact Hall.
Qed.

Lemma zleb_total_preorder : Signalo.Spec.C04.total_preorder Z.leb.
Proof.
  split.
  - intros a b. rewrite !Z.leb_le. lia.
  - intros a b c. rewrite !Z.leb_le. lia.
Qed.

Lemma bridge_c04 : forall n hist x s s' y, (1 <= n)%N -> (n + 1 <= Signalo.Model.Bounds.usize_max)%N ->
  oexec (Signalo.Model.Bounds.max_step Z.leb n Signalo.Model.Bounds.usize_max false) Signalo.Model.Bounds.init hist = Some s ->
  Signalo.Model.Bounds.max_step Z.leb n Signalo.Model.Bounds.usize_max false s x = Some (s', y) ->
  Signalo.Spec.C04.is_maxb Z.leb Z.eqb (lastn (N.to_nat n) (hist ++ [x])) y = true.
Proof.
  intros n hist x s s' y Hn Hnm He Hs.
  destruct (Signalo.Proofs.Bounds.max_run Z Z.leb zleb_total_preorder n Signalo.Model.Bounds.usize_max Hn Hnm hist x)
    as (s0 & s0' & y0 & He0 & Hs0 & Hmax).
  rewrite He in He0. injection He0 as <-.
  rewrite Hs in Hs0. injection Hs0 as <- <-.
  apply is_max_is_maxb; [apply Z.eqb_refl|exact Hmax].
Qed.

(* ---------- C15 ---------- *)
Lemma last_firstn_nth {A} n (r : list A) x0 d : (n <= length r)%nat -> last (firstn n r) x0 = nth n (x0 :: r) d.
Proof.
  revert r x0; induction n as [|n IH]; intros r x0 H; [reflexivity|].
  destruct r as [|a r]; [cbn in H; lia|]. cbn [length] in H.
  cbn [firstn]. rewrite Signalo.Proofs.DiffInt.last_cons, (IH r a) by lia. reflexivity.
Qed.

Lemma bridge_c15 : forall k xs n, (k <= 3)%nat -> (n < length xs)%nat ->
  Signalo.Check.Common.qnth n (Signalo.Check.C15.model k xs) == Signalo.Check.C15.spec_at k xs n.
Proof.
  intros k xs n Hk Hn. unfold Signalo.Check.Common.qnth.
  destruct k as [|[|[|[|k]]]]; [| | | |lia]; cbn [Signalo.Check.C15.model Signalo.Check.C15.spec_at];
    unfold Signalo.Check.Common.qnth.
  - (* differentiate *)
    rewrite (nth_run _ n _ xs 0 0) by lia.
    destruct n as [|m]; [reflexivity|].
    rewrite (firstn_S_nth m xs 0) by lia. apply Signalo.Proofs.DiffInt.diff_spec.
  - (* integrate *)
    rewrite (nth_run _ n _ xs 0 0) by lia.
    rewrite Signalo.Proofs.DiffInt.int_spec, <- (firstn_S_nth n xs 0) by lia. reflexivity.
  - (* integrate after differentiate *)
    rewrite (nth_run _ n _ (run Signalo.Model.Smooth.diff_step None xs) 0 0) by (rewrite run_length; lia).
    rewrite Signalo.Proofs.DiffInt.int_spec.
    rewrite <- (firstn_S_nth n (run Signalo.Model.Smooth.diff_step None xs) 0) by (rewrite run_length; lia).
    rewrite <- run_firstn.
    destruct xs as [|x0 r]; [cbn in Hn; lia|]. cbn [length] in Hn.
    change (firstn (S n) (x0 :: r)) with (x0 :: firstn n r).
    rewrite Signalo.Proofs.DiffInt.qsum_run_diff_fresh.
    rewrite (last_firstn_nth n r x0 0) by lia. reflexivity.
  - (* differentiate after integrate *)
    rewrite (nth_run _ n _ (run Signalo.Model.Smooth.int_step 0 xs) 0 0) by (rewrite run_length; lia).
    destruct n as [|m]; [reflexivity|].
    rewrite <- run_firstn.
    rewrite (nth_run _ (S m) _ xs 0 0) by lia.
    rewrite (firstn_S_nth m xs 0) by lia.
    apply Signalo.Proofs.DiffInt.diff_int.
Qed.

(* ---------- C10 ---------- *)
Import Signalo.Model.Sources.

(* cap the counts of take / repeat / constant pad / edge pad at K; skip counts are left alone *)
Fixpoint capc (K : nat) (e : expr) : expr :=
  match e with
  | EList l => EList l
  | EChain a b => EChain (capc K a) (capc K b)
  | ETake e c => ETake (capc K e) (Nat.min c K)
  | ESkip e c => ESkip (capc K e) c
  | ECycle e => ECycle (capc K e)
  | EConstant v => EConstant v
  | ERepeat v c => ERepeat v (Nat.min c K)
  | EIncrement a d => EIncrement a d
  | EPadConst e v c => EPadConst (capc K e) v (Nat.min c K)
  | EPadEdge e c => EPadEdge (capc K e) (Nat.min c K)
  | EPeek e => EPeek (capc K e)
  | ECache e => ECache (capc K e)
  | ERoundTrip e => ERoundTrip (capc K e)
  end.

(* true exactly on the expressions without ESkip *)
Fixpoint skip_free (e : expr) : bool :=
  match e with
  | ESkip _ _ => false
  | EChain a b => skip_free a && skip_free b
  | ETake e _ | ECycle e | EPadConst e _ _ | EPadEdge e _ | EPeek e | ECache e | ERoundTrip e => skip_free e
  | EList _ | EConstant _ | ERepeat _ _ | EIncrement _ _ => true
  end.

(* total of the skip counts: the inner requests of [sem e n] are for at most n + skips e items *)
Fixpoint skips (e : expr) : nat :=
  match e with
  | ESkip e c => c + skips e
  | EChain a b => skips a + skips b
  | ETake e _ | ECycle e | EPadConst e _ _ | EPadEdge e _ | EPeek e | ECache e | ERoundTrip e => skips e
  | EList _ | EConstant _ | ERepeat _ _ | EIncrement _ _ => 0
  end.

Lemma skip_free_skips e : skip_free e = true -> skips e = 0%nat.
Proof.
  induction e; cbn [skip_free skips]; intros H; auto; try discriminate.
  apply andb_prop in H. destruct H as [H1 H2]. rewrite IHe1, IHe2 by assumption. reflexivity.
Qed.

Lemma firstn_repeat_min {A} (v : A) m c : firstn m (repeat v c) = repeat v (Nat.min m c).
Proof.
  revert c; induction m as [|m IH]; intros c; [reflexivity|].
  destruct c as [|c]; [reflexivity|]. cbn [repeat firstn Nat.min]. rewrite IH. reflexivity.
Qed.

Lemma firstn_cap_front {A} n K (v : A) c l : (n <= K)%nat ->
  firstn n (repeat v (Nat.min c K) ++ l) = firstn n (repeat v c ++ l).
Proof.
  intros H. rewrite !firstn_app, !firstn_repeat_min, !repeat_length.
  destruct (Nat.le_gt_cases c K) as [Hc|Hc].
  - rewrite (Nat.min_l c K) by lia. reflexivity.
  - rewrite (Nat.min_r c K) by lia.
    rewrite (Nat.min_l n K), (Nat.min_l n c) by lia.
    replace (n - K)%nat with 0%nat by lia. replace (n - c)%nat with 0%nat by lia. reflexivity.
Qed.

Lemma firstn_cap_back {A} n K (v : A) c l : (n <= K)%nat ->
  firstn n (l ++ repeat v (Nat.min c K)) = firstn n (l ++ repeat v c).
Proof.
  intros H. rewrite !firstn_app, !firstn_repeat_min. f_equal. f_equal. lia.
Qed.

Lemma firstn_cap_both {A} n K (v w : A) c l : (n <= K)%nat ->
  firstn n (repeat v (Nat.min c K) ++ l ++ repeat w (Nat.min c K)) = firstn n (repeat v c ++ l ++ repeat w c).
Proof.
  intros H. rewrite (firstn_cap_front n K v c _ H).
  rewrite !app_assoc. apply firstn_cap_back, H.
Qed.

Lemma bridge_c10_cap_skips : forall e n K, (n + skips e <= K)%nat ->
  Signalo.Spec.C10.sem (capc K e) n = Signalo.Spec.C10.sem e n.
Proof.
  induction e as [l|a IHa b IHb|e IH c|e IH c|e IH|v|v c|a d|e IH v c|e IH c|e IH|e IH|e IH];
    intros n K H; cbn [capc Signalo.Spec.C10.sem skips] in *.
  - reflexivity.
  - rewrite (IHa n K) by lia. rewrite (IHb _ K) by lia. reflexivity.
  - replace (Nat.min n (Nat.min c K)) with (Nat.min n c) by lia. apply IH. lia.
  - rewrite (IH (c + n)%nat K) by lia. reflexivity.
  - rewrite (IH n K) by lia. reflexivity.
  - reflexivity.
  - replace (Nat.min n (Nat.min c K)) with (Nat.min n c) by lia. reflexivity.
  - reflexivity.
  - rewrite (IH n K) by lia.
    destruct (length (Signalo.Spec.C10.sem e n) <? n)%nat.
    + apply firstn_cap_both. lia.
    + rewrite !app_nil_r. apply firstn_cap_front. lia.
  - rewrite (IH n K) by lia.
    destruct (Signalo.Spec.C10.sem e n) as [|x r] eqn:E; [reflexivity|].
    destruct (length (x :: r) <? n)%nat.
    + apply firstn_cap_both. lia.
    + rewrite !app_nil_r. apply firstn_cap_front. lia.
  - apply IH, H.
  - apply IH, H.
  - apply IH, H.
Qed.

Lemma bridge_c10_cap : forall e n K, skip_free e = true -> (n <= K)%nat ->
  Signalo.Spec.C10.sem (capc K e) n = Signalo.Spec.C10.sem e n.
Proof.
  intros e n K Hf H. apply bridge_c10_cap_skips. rewrite (skip_free_skips e Hf). lia.
Qed.

(* without the side condition the statement is false: a capped take under an uncapped skip *)
Example bridge_c10_cap_needs_skip_free :
  let e := ESkip (ETake (EIncrement 0 1) 100) 50 in
  Signalo.Spec.C10.sem (capc 40 e) 5 = [] /\ Signalo.Spec.C10.sem e 5 = [50; 51; 52; 53; 54]%Z.
Proof. vm_compute. split; reflexivity. Qed.

Lemma bridge_c10_skip_short : forall l c, (length l <= c)%nat ->
  forall n, Signalo.Spec.C10.sem (ESkip (EList l) c) n = [].
Proof.
  intros l c H n. cbn [Signalo.Spec.C10.sem]. apply skipn_all2. rewrite firstn_length. lia.
Qed.

(* the one huge-skip shape the harness nests: an edge pad over a skip past the end of a short list *)
Lemma bridge_c10_pad_over_skip_short : forall l c c' k, (length l <= c)%nat -> (length l <= c')%nat ->
  forall n, Signalo.Spec.C10.sem (EPadEdge (ESkip (EList l) c) k) n = Signalo.Spec.C10.sem (EPadEdge (ESkip (EList l) c') k) n.
Proof.
  intros l c c' k H H' n.
  change (Signalo.Spec.C10.sem (EPadEdge (ESkip (EList l) c) k) n) with
    (let d := Signalo.Spec.C10.sem (ESkip (EList l) c) n in match d with [] => [] | x :: _ => firstn n (repeat x k ++ d ++ (if length d <? n then repeat (last d x) k else [])) end).
  change (Signalo.Spec.C10.sem (EPadEdge (ESkip (EList l) c') k) n) with
    (let d := Signalo.Spec.C10.sem (ESkip (EList l) c') n in match d with [] => [] | x :: _ => firstn n (repeat x k ++ d ++ (if length d <? n then repeat (last d x) k else [])) end).
  rewrite (bridge_c10_skip_short l c H n), (bridge_c10_skip_short l c' H' n). reflexivity.
Qed.
