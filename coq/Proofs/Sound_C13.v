(* C13 - no false alarm: whenever the recorded outputs of the exponential mean / exponential median agree
   with the model (bit 1 clear), the boolean spec of Check/C13 (lengths, recurrences evaluated on the recorded
   outputs, hull + constants under unit gains) accepts them.  No side condition is needed. *)
From Coq Require Import NArith Morphisms.
From Signalo Require Import Check.Common Model.Smooth Base.Lincomb Proofs.ExpSmooth Proofs.Bridge
  Proofs.Sound_LibB Proofs.Sound_C06 Check.C13.

(* ---------- the k-th output of a run, as the last output after a prefix ---------- *)
Lemma qnth_run {St} (step : St -> Q -> St * Q) s xs n : (n < length xs)%nat ->
  qnth n (run step s xs) = last_out step s (firstn n xs) (qnth n xs).
Proof. intros H. unfold qnth. apply nth_run. exact H. Qed.
Lemma firstn_S_qnth n (l : list Q) : (n < length l)%nat -> firstn (S n) l = firstn n l ++ [qnth n l].
Proof. apply firstn_S_nth. Qed.
Lemma qnth0_firstn n xs : qnth 0 (firstn (S n) xs) = qnth 0 xs.
Proof. unfold qnth. apply nth_firstn'. lia. Qed.

(* ---------- exponential mean: recurrence and convexity of the model's run ---------- *)
Lemma ema_run_first w xs : (0 < length xs)%nat -> qnth 0 (run (ema_step w) None xs) = qnth 0 xs.
Proof. destruct xs; [cbn; lia | reflexivity]. Qed.
Lemma ema_run_rec w xs m : (S m < length xs)%nat ->
  qnth (S m) (run (ema_step w) None xs)
  == qnth m (run (ema_step w) None xs) + w * (qnth (S m) xs - qnth m (run (ema_step w) None xs)).
Proof.
  intros H. rewrite !qnth_run by lia. rewrite (firstn_S_qnth m xs) by lia.
  exact (ema_rec w (firstn m xs) (qnth m xs) (qnth (S m) xs)).
Qed.
Lemma ema_run_conv w xs n : 0 <= w -> w <= 1 -> (n < length xs)%nat ->
  Conv (firstn (S n) xs) (qnth n (run (ema_step w) None xs)).
Proof.
  intros H0 H1 H. rewrite qnth_run by lia. rewrite (firstn_S_qnth n xs) by lia. apply ema_conv; assumption.
Qed.

(* ---------- exponential median ---------- *)
Lemma xm_run_first c xs : (0 < length xs)%nat -> qnth 0 (run (xm_step c) xm_init xs) = qnth 0 xs.
Proof. destruct xs; [cbn; lia | reflexivity]. Qed.
Lemma xm_run_rec c xs m : (S m < length xs)%nat ->
  qnth (S m) (run (xm_step c) xm_init xs)
  == qnth m (run (xm_step c) xm_init xs)
     + xpost c * ((qnth m (run (xm_step c) xm_init xs)
                   + xmid c * (qnth (S m) (run (ema_step (xpre c)) None xs) - qnth m (run (xm_step c) xm_init xs)))
                  - qnth m (run (xm_step c) xm_init xs)).
Proof.
  intros H. rewrite !qnth_run by lia. rewrite (firstn_S_qnth m xs) by lia.
  exact (xm_rec c (firstn m xs) (qnth m xs) (qnth (S m) xs)).
Qed.
Lemma xm_run_conv c xs n : 0 <= xpre c <= 1 -> 0 <= xmid c <= 1 -> 0 <= xpost c <= 1 -> (n < length xs)%nat ->
  Conv (firstn (S n) xs) (qnth n (run (xm_step c) xm_init xs)).
Proof.
  intros H0 H1 H2 H. rewrite qnth_run by lia. rewrite (firstn_S_qnth n xs) by lia. apply xm_conv; assumption.
Qed.

(* the unreduced pre-smoother of the checker is the model's pre-smoother up to Qeq *)
Lemma ema_seq_ok w xs : forall prev s, oQeq prev s -> qleq (ema_seq w prev xs) (run (ema_step w) s xs).
Proof.
  induction xs as [|x xs IH]; intros prev s H; cbn [ema_seq run]; [constructor|].
  assert (E : match prev with None => x | Some p => p + w * (x - p) end == snd (ema_step w s x)).
  { destruct prev as [p|], s as [y|]; cbn [oQeq] in H; try contradiction; cbn [ema_step snd]; [|reflexivity].
    rok. rewrite H. ring. }
  constructor; [exact E|]. apply IH. cbn [ema_step fst snd oQeq] in *. exact E.
Qed.

Lemma unit_ok_true w : unit_ok w = true -> 0 <= w <= 1.
Proof. unfold unit_ok. intros H. apply andb_prop in H as [A B]. split; apply qleb_iff; assumption. Qed.

(* ---------- the two halves of the spec ---------- *)
Lemma rec_ok_model c : qleq (model c) (cys c) -> rec_ok c = true.
Proof.
  unfold model, rec_ok. destruct (ckind c) as [|k]; intros Q; apply forallb_forall; intros n Hn;
    apply in_seq in Hn; apply qeqb_iff.
  - destruct n as [|m].
    + rewrite <- (qleq_qnth _ _ 0 Q). rewrite ema_run_first by lia. reflexivity.
    + rewrite <- (qleq_qnth _ _ (S m) Q), <- (qleq_qnth _ _ m Q). apply ema_run_rec. lia.
  - cbv zeta. destruct n as [|m].
    + rewrite <- (qleq_qnth _ _ 0 Q). rewrite xm_run_first by lia. reflexivity.
    + rewrite <- (qleq_qnth _ _ (S m) Q), <- (qleq_qnth _ _ m Q).
      rewrite (qleq_qnth _ _ (S m) (ema_seq_ok (cpre c) (cxs c) None None I)).
      apply (xm_run_rec {| xpre := cpre c; xmid := cmid c; xpost := cpost c |}). lia.
Qed.

Lemma hull_from_conv xs ys :
  (forall n, (n < length xs)%nat -> Conv (firstn (S n) xs) (qnth n ys)) ->
  forallb (fun n => in_hull (firstn (S n) xs) (qnth n ys)
                    && (negb (all_eq (firstn (S n) xs)) || qeqb (qnth n ys) (qnth 0 xs)))
          (seq 0 (length xs)) = true.
Proof.
  intros H. apply forallb_forall. intros n Hn. apply in_seq in Hn.
  assert (C : Conv (firstn (S n) xs) (qnth n ys)) by (apply H; lia).
  apply andb_true_intro. split; [apply Conv_in_hull, C|].
  destruct (all_eq (firstn (S n) xs)) eqn:Ea; [|reflexivity]. cbn [negb orb].
  apply qeqb_iff. apply (Conv_all_eq (firstn (S n) xs)); [|exact C].
  intros v Hv. rewrite <- (qnth0_firstn n xs). apply all_eq_forall; assumption.
Qed.

Lemma hull_ok_model c : qleq (model c) (cys c) -> hull_ok c = true.
Proof.
  unfold model, hull_ok, gains_ok. destruct (ckind c) as [|k]; intros Q.
  - destruct (unit_ok (cpre c)) eqn:E; [|reflexivity]. cbn [negb orb].
    destruct (unit_ok_true _ E) as [H0 H1].
    apply hull_from_conv. intros n Hn.
    apply (Conv_proper _ _ _ (qleq_qnth _ _ n Q)). apply ema_run_conv; assumption.
  - destruct (unit_ok (cpre c) && unit_ok (cmid c) && unit_ok (cpost c)) eqn:E; [|reflexivity]. cbn [negb orb].
    apply andb_prop in E as [E E3]. apply andb_prop in E as [E1 E2].
    apply hull_from_conv. intros n Hn.
    apply (Conv_proper _ _ _ (qleq_qnth _ _ n Q)).
    apply (xm_run_conv {| xpre := cpre c; xmid := cmid c; xpost := cpost c |}); cbn [xpre xmid xpost];
      try apply unit_ok_true; assumption.
Qed.

Lemma model_len c : length (model c) = length (cxs c).
Proof. unfold model. destruct (ckind c); apply run_length. Qed.

Theorem C13_check_sound : forall c : case, N.land (code (check c)) 3 <> 2%N.
Proof.
  intros c. unfold check. apply mkv_sound. intros H.
  apply andb_prop in H as [Hp Hm]. rewrite Hp. cbn [andb].
  apply qlist_eqb_iff in Hm.
  assert (L : (length (cxs c) =? length (cys c))%nat = true).
  { apply Nat.eqb_eq. rewrite <- (qleq_length _ _ Hm). symmetry. apply model_len. }
  rewrite L, (rec_ok_model c Hm), (hull_ok_model c Hm). reflexivity.
Qed.
Print Assumptions C13_check_sound.
