(* C06 — no false alarm: whenever the recorded Kalman estimates / covariances / panic flag agree with the
   model (bit 1 clear), the boolean spec of Check/C06 (textbook recursion + hull) accepts them. *)
From Coq Require Import NArith Morphisms.
From Signalo Require Import Check.Common Model.Smooth Base.Lincomb Spec.C06 Proofs.Observe Check.C06 Proofs.Sound_LibB.

(* ---------- part 1: the model follows the reference recursion while the reference is safe ---------- *)
Definition Rel (s : k_st) (st : option (Q * Q)) : Prop :=
  match st with
  | None => kvalue s = None
  | Some xP => exists x0, kvalue s = Some x0 /\ x0 == fst xP /\ cov s == snd xP
  end.

Lemma k_process_fresh c s zu : kvalue s = None -> k_process c s zu = k_process c k_init zu.
Proof. intros H. unfold k_process. rewrite H. reflexivity. Qed.

Lemma ref_den_proper p P P' : P == P' -> ref_den p P == ref_den p P'.
Proof. intros H. unfold ref_den. rewrite H. reflexivity. Qed.

Lemma model_follows_ref c zus : forall s st1 st2, Rel s st1 -> Rel s st2 ->
  ref_safe (params c) st1 zus = true ->
  let '(ys, ps, pn) := model_run c s zus in
  pn = false /\ qleq (map fst (ref_all (params c) st2 zus)) ys /\ qleq (map snd (ref_all (params c) st2 zus)) ps.
Proof.
  induction zus as [|[z u] zus IH]; intros s st1 st2 R1 R2 Hs.
  { cbn. repeat split; constructor. }
  cbn [model_run ref_all ref_safe] in *.
  destruct st1 as [[x1 P1]|]; destruct st2 as [[x2 P2]|]; cbn [Rel fst snd] in R1, R2;
    try (destruct R1 as (x0 & Hv & _); congruence); try (destruct R2 as (x0 & Hv & _); congruence).
  - destruct R1 as (x0 & Hv & Hx1 & HP1). destruct R2 as (x0' & Hv' & Hx2 & HP2).
    rewrite Hv in Hv'. injection Hv' as <-.
    apply andb_prop in Hs as [Hd Hs]. apply Bool.negb_true_iff in Hd.
    assert (Hd1 : ~ ref_den (params_of c) P1 == 0).
    { intros C. apply qeqb_iff in C. change (params_of c) with (params c) in C. cbn [snd] in Hd. congruence. }
    assert (Hd2 : ~ ref_den (params_of c) P2 == 0).
    { intros C. apply Hd1. rewrite <- C. apply ref_den_proper. rewrite <- HP1, HP2. reflexivity. }
    destruct (kalman_step c s x0 x1 P1 z u Hv Hx1 HP1 Hd1) as (s' & v & E & Hv1 & Ev1 & EP1).
    destruct (kalman_step c s x0 x2 P2 z u Hv Hx2 HP2 Hd2) as (s'' & v'' & E' & _ & Ev2 & EP2).
    rewrite E in E'. injection E' as <- <-. rewrite E.
    change (params_of c) with (params c) in *.
    set (st1' := Some (Qred (fst (ref_step (params c) (x1, P1) (z, u))), Qred (snd (ref_step (params c) (x1, P1) (z, u))))) in *.
    set (st2' := Some (Qred (fst (ref_step (params c) (x2, P2) (z, u))), Qred (snd (ref_step (params c) (x2, P2) (z, u))))) in *.
    assert (R1' : Rel s' st1').
    { exists v. cbn [fst snd]. rewrite !Qred_correct. auto. }
    assert (R2' : Rel s' st2').
    { exists v. cbn [fst snd]. rewrite !Qred_correct. auto. }
    specialize (IH s' st1' st2' R1' R2' Hs).
    destruct (model_run c s' zus) as [[ys ps] pn]. destruct IH as (Hp & Hy & Hc).
    split; [exact Hp|]. cbn [map fst snd].
    split; (constructor; [rewrite Qred_correct; symmetry; assumption | assumption]).
  - apply andb_prop in Hs as [Hd Hs]. apply Bool.negb_true_iff in Hd.
    assert (Hc0 : ~ kc c == 0).
    { intros C. apply qeqb_iff in C. cbn [params pc] in Hd. congruence. }
    rewrite (k_process_fresh c s (z, u) R1).
    destruct (kalman_first c z u Hc0) as (s' & v & E & Hv1 & Ev1 & EP1). rewrite E.
    change (params_of c) with (params c) in *.
    set (st1' := Some (ref_init (params c) z)) in *.
    set (st2' := Some (Qred (fst (ref_init (params c) z)), Qred (snd (ref_init (params c) z)))) in *.
    assert (R1' : Rel s' st1') by (exists v; auto).
    assert (R2' : Rel s' st2').
    { exists v. cbn [fst snd]. rewrite !Qred_correct. auto. }
    specialize (IH s' st1' st2' R1' R2' Hs).
    destruct (model_run c s' zus) as [[ys ps] pn]. destruct IH as (Hp & Hy & Hc).
    split; [exact Hp|]. cbn [map fst snd].
    split; (constructor; [rewrite Qred_correct; symmetry; assumption | assumption]).
Qed.

(* ---------- part 2: convex configurations (a = c = 1, b = 0, r >= 0, q > 0), any controls ---------- *)
Section KConvexU.
Variable c : k_cfg.
Hypothesis Ha : ka c == 1.
Hypothesis Hb : kb c == 0.
Hypothesis Hc : kc c == 1.
Hypothesis Hr : 0 <= kr c.
Hypothesis Hq : 0 < kq c.

(* like Observe.KInv, but the covariance of a state that has not seen a sample is arbitrary (FromGuts) *)
Definition KInv' (s : k_st) (zs : list Q) : Prop :=
  match kvalue s with Some v => 0 <= cov s /\ Conv zs v | None => zs = [] end.

Lemma kconv_step_u s zs z u : KInv' s zs ->
  exists s' v, k_process c s (z, u) = Some (s', v) /\ kvalue s' = Some v /\ Conv (zs ++ [z]) v /\ 0 <= cov s'.
Proof.
  unfold KInv'. intros HI. unfold k_process.
  destruct (kvalue s) as [x|] eqn:Ev.
  - destruct HI as [HP Hv].
    set (pred_cov := radd (rmul (rmul (ka c) (cov s)) (ka c)) (kr c)).
    set (c2 := rmul (kc c) (kc c)).
    assert (Epc : pred_cov == cov s + kr c).
    { unfold pred_cov. rewrite radd_ok, !rmul_ok, Ha. ring. }
    assert (Ppos : 0 <= pred_cov) by (rewrite Epc; lra).
    assert (Eden : radd (rmul pred_cov c2) (kq c) == pred_cov + kq c).
    { unfold c2. rewrite radd_ok, !rmul_ok, Hc. ring. }
    assert (Hd : ~ radd (rmul pred_cov c2) (kq c) == 0) by (rewrite Eden; lra).
    destruct (cdiv_some (rmul pred_cov (kc c)) _ Hd) as (g & Eg & Dg).
    rewrite Eg. cbn [obind]. do 2 eexists. split; [reflexivity|]. cbn [kvalue cov].
    split; [reflexivity|].
    assert (Eg' : g == pred_cov / (pred_cov + kq c)).
    { rewrite Dg, Eden, rmul_ok, Hc. field. lra. }
    assert (G0 : 0 <= g).
    { rewrite Eg'. apply Qle_shift_div_l; lra. }
    assert (G1 : g <= 1).
    { rewrite Eg'. apply Qle_shift_div_r; lra. }
    split.
    + apply (Conv_proper _ (x + (z - x) * g)).
      { rok. rewrite Ha, Hb, Hc. ring. }
      apply Conv_mix; auto; [apply Conv_weaken; auto | apply Conv_last].
    + rok. rewrite Hc.
      setoid_replace (pred_cov - g * 1 * pred_cov) with (pred_cov * (1 - g)) by ring.
      apply Qmult_le_0_compat; lra.
  - subst zs.
    assert (Hc0 : ~ kc c == 0) by (rewrite Hc; discriminate).
    destruct (cdiv_some z (kc c) Hc0) as (d1 & E1 & D1).
    assert (Hc2 : ~ rmul (kc c) (kc c) == 0) by (rewrite rmul_ok, Hc; discriminate).
    destruct (cdiv_some (kq c) _ Hc2) as (d2 & E2 & D2).
    rewrite E1, E2. cbn [obind]. do 2 eexists. split; [reflexivity|]. cbn [kvalue cov].
    split; [reflexivity|]. split.
    + apply (Conv_proper _ z); [rewrite D1, Hc; field | apply (Conv_last [] z)].
    + rewrite D2, rmul_ok, Hc. setoid_replace (kq c / (1 * 1)) with (kq c) by field. lra.
Qed.

Lemma model_convex zus : forall s hist, KInv' s hist ->
  let '(ys, ps, pn) := model_run c s zus in
  length ys = length zus /\
  (forall k, (k < length zus)%nat -> Conv (hist ++ firstn (S k) (map fst zus)) (nth k ys 0)) /\
  Forall (fun p => 0 <= p) ps.
Proof.
  induction zus as [|[z u] zus IH]; intros s hist HI.
  { cbn. split; [reflexivity|]. split; [intros k Hk; lia | constructor]. }
  cbn [model_run].
  destruct (kconv_step_u s hist z u HI) as (s' & v & E & Hv & Cv & HP). rewrite E.
  assert (HI' : KInv' s' (hist ++ [z])) by (unfold KInv'; rewrite Hv; split; assumption).
  specialize (IH s' (hist ++ [z]) HI').
  destruct (model_run c s' zus) as [[ys ps] pn]. destruct IH as (L & Hk & Hps).
  split; [cbn [length]; congruence|]. split; [|constructor; assumption].
  intros [|k] Hlt.
  - cbn [map fst firstn nth]. exact Cv.
  - cbn [map fst nth]. change (firstn (S (S k)) (z :: map fst zus)) with (z :: firstn (S k) (map fst zus)).
    replace (hist ++ z :: firstn (S k) (map fst zus)) with ((hist ++ [z]) ++ firstn (S k) (map fst zus))
      by (rewrite <- app_assoc; reflexivity).
    apply Hk. cbn [length] in Hlt. lia.
Qed.
End KConvexU.

(* a convex combination lies between two of the samples *)
Lemma Conv_in_hull xs y : Conv xs y -> in_hull xs y = true.
Proof.
  intros HC. destruct xs as [|x r].
  { destruct HC as (ws & L & _ & S1 & _). destruct ws; [|discriminate]. simpl in S1. discriminate S1. }
  destruct (list_min_exists x r) as (lo & Ilo & Hlo). destruct (list_max_exists x r) as (hi & Ihi & Hhi).
  assert (B : lo <= y <= hi).
  { apply (Conv_hull (x :: r)); [exact HC|]. apply Forall_forall. intros v Hv. split; [apply Hlo, Hv | apply Hhi, Hv]. }
  unfold in_hull. apply andb_true_intro. split; apply existsb_exists.
  - exists lo. split; [exact Ilo | apply qleb_iff, B].
  - exists hi. split; [exact Ihi | apply qleb_iff, B].
Qed.
Lemma Conv_all_eq xs z0 y : (forall v, In v xs -> v == z0) -> Conv xs y -> y == z0.
Proof.
  intros H HC. assert (B : z0 <= y <= z0).
  { apply (Conv_hull xs); [exact HC|]. apply Forall_forall. intros v Hv. rewrite (H v Hv). split; apply Qle_refl. }
  apply Qle_antisym; apply B.
Qed.

Lemma convex_cfg_true c : convex_cfg c = true -> ka c == 1 /\ kb c == 0 /\ kc c == 1 /\ 0 <= kr c /\ 0 < kq c.
Proof.
  unfold convex_cfg. intros H. repeat (apply andb_prop in H as [H ?]).
  repeat split; try (apply qeqb_iff; assumption); [apply qleb_iff | apply qltb_iff]; assumption.
Qed.

Theorem C06_check_sound : forall c : case, N.land (code (check c)) 3 <> 2%N.
Proof.
  intros c. unfold check.
  set (s0 := {| cov := ccov0 c; kvalue := None |}).
  pose proof (model_follows_ref (ccfg c) (czus c) s0 None None eq_refl eq_refl) as Href.
  pose proof (fun Ha Hb Hc Hr Hq => model_convex (ccfg c) Ha Hb Hc Hr Hq (czus c) s0 [] eq_refl) as Hconv.
  destruct (model_run (ccfg c) s0 (czus c)) as [[ys ps] pn].
  apply mkv_sound. intros H.
  apply andb_prop in H as [H Hps]. apply andb_prop in H as [Hpn Hys]. apply Bool.eqb_prop in Hpn.
  destruct (ref_safe (params (ccfg c)) None (czus c)); [|reflexivity].
  destruct (Href eq_refl) as (Hp & Ry & Rp).
  assert (Qy : qleq ys (cys c)) by (apply qlist_eqb_iff; exact Hys).
  assert (Qp : qleq ps (ccovs c)) by (apply qlist_eqb_iff; exact Hps).
  rewrite <- Hpn, Hp. cbn [negb andb].
  rewrite (transfer_q _ _ _ Ry Hys), (transfer_q _ _ _ Rp Hps). cbn [andb].
  destruct (convex_cfg (ccfg c)) eqn:Ecx; [|reflexivity]. cbn [negb orb].
  destruct (convex_cfg_true _ Ecx) as (Ha & Hb & Hc & Hr & Hq).
  destruct (Hconv Ha Hb Hc Hr Hq) as (L & Hk & Hnn). cbn [app] in Hk.
  rewrite map_length.
  assert (Hcy : forall n, (n < length (czus c))%nat -> Conv (firstn (S n) (map fst (czus c))) (qnth n (cys c))).
  { intros n Hn. apply (Conv_proper _ (nth n ys 0)); [apply (qleq_qnth _ _ n Qy) | apply Hk, Hn]. }
  apply andb_true_intro. split; [apply andb_true_intro; split|].
  - apply forallb_forall. intros n Hn. apply in_seq in Hn. apply Conv_in_hull, Hcy. lia.
  - apply (forallb_qleq (qleb 0) ps (ccovs c)); [|exact Qp|].
    + intros x y E Hx. apply qleb_iff. apply qleb_iff in Hx. rewrite <- E. exact Hx.
    + apply forallb_forall. intros p Hin. apply qleb_iff. rewrite Forall_forall in Hnn. apply Hnn, Hin.
  - destruct (all_eq (map fst (czus c))) eqn:Eall; [|reflexivity]. cbn [negb orb].
    apply forallb_forall. intros y Hy. apply qeqb_iff. symmetry.
    destruct (In_nth _ _ 0 Hy) as (n & Hn & <-).
    assert (Hn' : (n < length (czus c))%nat) by (rewrite <- (qleq_length _ _ Qy), L in Hn; exact Hn).
    apply (Conv_all_eq (firstn (S n) (map fst (czus c)))); [|apply Hcy, Hn'].
    intros v Hv. apply all_eq_forall; [exact Eall|]. eapply In_firstn; exact Hv.
Qed.
Print Assumptions C06_check_sound.
