(* C04 proofs: the monotonic-deque moving max/min/bounds filter (Model/Bounds.v, repaired code
   [old = false]) returns an extremum of the last min(k,n) samples, never panics, and keeps the
   well-formedness invariant [WF] -- also across the rebase of the clock at [maxu]. *)
From Coq Require Import NArith ZArith List Bool Lia Sorted.
From Signalo Require Import Model.Bounds Spec.C04 Base.Machine.
Local Open Scope N_scope.

(* ------------------------------------------------------------------------------------------ *)
(* The invariant.  Everything is phrased with AGES, which the rebase does not change.         *)

(* age of a timestamp [t] at clock value [now]: 1 = pushed by the latest step *)
Definition age (now t : N) : nat := N.to_nat (now - t).
(* the sample of age [a] in the window [w] (oldest first): [sample w 1] is the last element *)
Definition sample {T} (w : list T) (a : nat) : option T := nth_error (rev w) (a - 1).

Section WF.
Context {T : Type}.
Variable leb : T -> T -> bool.
Variables n maxu : N.

(* [e1] sits in front of [e2] in the deque: older timestamp, and not a smaller value *)
Definition before (e1 e2 : T * N) : Prop := snd e1 < snd e2 /\ leb (fst e2) (fst e1) = true.

(* state [s] holds the window [w] (the last min(k,n) samples, oldest first) *)
Record WF (s : st T) (w : list T) : Prop := {
  (* the clock is a machine word *)
  wf_clock : time s <= maxu;
  (* the window is at most n wide *)
  wf_width : (length w <= N.to_nat n)%nat;
  (* every entry is in the past (age >= 1) and is the window sample of its age *)
  wf_entry : forall v t, In (v, t) (taps s) -> t < time s /\ sample w (age (time s) t) = Some v;
  (* front to back: timestamps strictly increase, values do not increase *)
  wf_order : StronglySorted before (taps s);
  (* every window sample is dominated by an entry that is not older than it *)
  wf_dom : forall a u, (1 <= a)%nat -> sample w a = Some u ->
           exists v t, In (v, t) (taps s) /\ (age (time s) t <= a)%nat /\ leb u v = true }.
End WF.

(* ------------------------------------------------------------------------------------------ *)
(* List facts                                                                                 *)

Lemma nth_error_firstn_if {A} k (l : list A) i :
  nth_error (firstn k l) i = if (i <? k)%nat then nth_error l i else None.
Proof.
  revert l i; induction k as [|k IH]; intros l i.
  - destruct i; reflexivity.
  - destruct l as [|x l]; destruct i as [|i]; try reflexivity.
    + cbn [firstn nth_error]. destruct (S i <? S k)%nat; reflexivity.
    + cbn [firstn nth_error]. apply IH.
Qed.

Lemma rev_lastn {A} k (l : list A) : rev (lastn k l) = firstn k (rev l).
Proof. unfold lastn. symmetry. apply firstn_rev. Qed.

Lemma lastn_idem_app {A} k (a b : list A) : lastn k (lastn k a ++ b) = lastn k (a ++ b).
Proof.
  destruct (Nat.le_gt_cases (length a) k) as [H|H].
  - rewrite (lastn_all k a) by exact H. reflexivity.
  - assert (Hl : length (lastn k a) = k) by (rewrite lastn_length; lia).
    unfold lastn at 2. rewrite <- (firstn_skipn (length a - k) a) at 3.
    rewrite <- app_assoc. rewrite (lastn_lastn_app k (firstn (length a - k) a)).
    + reflexivity.
    + rewrite app_length. fold (lastn k a). lia.
Qed.

Lemma sample_new_1 {T} k (w : list T) x : (1 <= k)%nat -> sample (lastn k (w ++ [x])) 1 = Some x.
Proof.
  intros Hk. unfold sample. rewrite rev_lastn, rev_app_distr. simpl.
  destruct k; [lia|]. reflexivity.
Qed.

Lemma sample_new_S {T} k (w : list T) x a : (1 <= a)%nat ->
  sample (lastn k (w ++ [x])) (S a) = if (S a <=? k)%nat then sample w a else None.
Proof.
  intros Ha. unfold sample. rewrite rev_lastn, rev_app_distr. simpl rev. simpl app.
  rewrite nth_error_firstn_if. replace (S a - 1)%nat with a by lia.
  destruct a as [|a]; [lia|]. replace (S a - 1)%nat with a by lia. reflexivity.
Qed.

Lemma sample_In {T} (w : list T) a v : sample w a = Some v -> In v w.
Proof. unfold sample. intros H. apply nth_error_In in H. apply in_rev. exact H. Qed.

Lemma In_sample {T} (w : list T) u : In u w -> exists a, (1 <= a)%nat /\ sample w a = Some u.
Proof.
  intros H. apply in_rev in H. apply In_nth_error in H. destruct H as [k Hk].
  exists (S k). split; [lia|]. unfold sample. replace (S k - 1)%nat with k by lia. exact Hk.
Qed.

Lemma SS_app_inv {A} (R : A -> A -> Prop) a b :
  StronglySorted R (a ++ b) ->
  StronglySorted R a /\ StronglySorted R b /\ (forall x y, In x a -> In y b -> R x y).
Proof.
  induction a as [|e a IH]; simpl; intros H.
  - repeat split; [constructor|exact H|intros x y []].
  - apply StronglySorted_inv in H. destruct H as [H1 H2].
    destruct (IH H1) as (Ia & Ib & Ic). rewrite Forall_forall in H2.
    repeat split.
    + constructor; [exact Ia|]. rewrite Forall_forall. intros y Hy. apply H2. apply in_or_app; auto.
    + exact Ib.
    + intros x y [Hx|Hx] Hy; [subst; apply H2; apply in_or_app; auto|auto].
Qed.

Lemma SS_snoc {A} (R : A -> A -> Prop) a e :
  StronglySorted R a -> (forall x, In x a -> R x e) -> StronglySorted R (a ++ [e]).
Proof.
  induction a as [|y a IH]; simpl; intros H1 H2.
  - repeat constructor.
  - apply StronglySorted_inv in H1. destruct H1 as [H1 H3]. rewrite Forall_forall in H3.
    constructor.
    + apply IH; auto.
    + rewrite Forall_forall. intros z Hz. apply in_app_or in Hz. destruct Hz as [Hz|[Hz|[]]].
      * auto.
      * subst. auto.
Qed.

Lemma SS_map_in {A B} (R : A -> A -> Prop) (R' : B -> B -> Prop) (f : A -> B) l :
  (forall x y, In x l -> In y l -> R x y -> R' (f x) (f y)) ->
  StronglySorted R l -> StronglySorted R' (map f l).
Proof.
  induction l as [|e l IH]; simpl; intros Hf H.
  - constructor.
  - apply StronglySorted_inv in H. destruct H as [H1 H2]. rewrite Forall_forall in H2.
    constructor.
    + apply IH; auto.
    + rewrite Forall_forall. intros z Hz. apply in_map_iff in Hz. destruct Hz as (y & <- & Hy).
      apply Hf; auto.
Qed.

(* ------------------------------------------------------------------------------------------ *)
(* Ages                                                                                       *)

Lemma age_succ ct t : t <= ct -> age (ct + 1) t = S (age ct t).
Proof. unfold age. lia. Qed.
Lemma age_self ct : age (ct + 1) ct = 1%nat.
Proof. unfold age. lia. Qed.
Lemma age_shift now t off : off <= t -> t <= now -> age (now - off) (t - off) = age now t.
Proof. unfold age. intros. f_equal. lia. Qed.

(* ------------------------------------------------------------------------------------------ *)
(* The step                                                                                   *)

Section Step.
Context {T : Type}.
Variable leb : T -> T -> bool.
Variables n maxu : N.
Hypothesis Htot : forall a b, leb a b = true \/ leb b a = true.
Hypothesis Htr : forall a b c, leb a b = true -> leb b c = true -> leb a c = true.
Hypothesis Hn1 : 1 <= n.
Hypothesis Hnm : n + 1 <= maxu.

Notation before := (before leb).
Notation WF := (WF leb n maxu).

(* the part of WF that speaks about the deque, for an arbitrary (virtual) clock value *)
Definition Core (now : N) (l : list (T * N)) (w : list T) : Prop :=
  (forall v t, In (v, t) l -> t < now /\ sample w (age now t) = Some v) /\
  StronglySorted before l /\
  (forall a u, (1 <= a)%nat -> sample w a = Some u ->
     exists v t, In (v, t) l /\ (age now t <= a)%nat /\ leb u v = true).

Lemma WF_Core s w : WF s w -> Core (time s) (taps s) w.
Proof. intros [H1 H2 H3 H4 H5]. split; [exact H3|split; [exact H4|exact H5]]. Qed.

Lemma Core_WF now l w : now <= maxu -> (length w <= N.to_nat n)%nat -> Core now l w ->
  WF {| time := now; taps := l |} w.
Proof. intros H1 H2 (H3 & H4 & H5). constructor; simpl; auto. Qed.

(* the front entry of a well-formed deque is a maximum of the window *)
Lemma core_front_max now l w v t r : Core now l w -> l = (v, t) :: r -> is_max leb w v.
Proof.
  intros (He & Hs & Hd) ->. split.
  - destruct (He v t (or_introl eq_refl)) as [_ H]. eapply sample_In; eauto.
  - intros u Hu. apply In_sample in Hu. destruct Hu as (a & Ha & Hu).
    destruct (Hd a u Ha Hu) as (v' & t' & Hin & _ & Hle).
    destruct Hin as [Hin|Hin].
    + inversion Hin; subst. exact Hle.
    + apply StronglySorted_inv in Hs. destruct Hs as [_ Hf]. rewrite Forall_forall in Hf.
      destruct (Hf _ Hin) as [_ Hb]. simpl in Hb. eapply Htr; eauto.
Qed.

(* expiry: drops exactly a prefix of entries of age >= n; no subtraction underflows *)
Lemma expire_spec ct l :
  (forall v t, In (v, t) l -> t < ct) ->
  exists l0 t1, l = l0 ++ t1 /\ expire T n maxu false ct l = Some t1 /\
    (forall v t, In (v, t) l0 -> n <= ct - t) /\
    match t1 with [] => True | (v, t) :: _ => ct - t < n end.
Proof.
  induction l as [|[v t] r IH]; intros Hlt.
  - exists [], []. repeat split; auto. intros ? ? [].
  - assert (Ht : t < ct) by (apply (Hlt v); left; reflexivity).
    cbn [expire]. unfold csub. destruct (N.leb_spec t ct) as [_|]; [|lia]. cbn [obind].
    destruct (N.leb_spec n (ct - t)) as [Hge|Hlt'].
    + destruct IH as (l0 & t1 & E & Hx & H0 & H1).
      { intros v' t' Hin. apply (Hlt v'). right. exact Hin. }
      exists ((v, t) :: l0), t1. repeat split; auto.
      * simpl. f_equal. exact E.
      * intros v' t' [Hin|Hin]; [inversion Hin; subst; exact Hge|eauto].
    + exists [], ((v, t) :: r). repeat split; auto. intros ? ? [].
Qed.

(* domination loop: removes a suffix of entries strictly below x; the survivor next to it is >= x *)
Lemma drop_spec x l :
  exists l1 l2, l = l1 ++ l2 /\ rev (drop_dominated T leb x (rev l)) = l1 /\
    (forall v t, In (v, t) l2 -> leb x v = false) /\
    (forall l1' v t, l1 = l1' ++ [(v, t)] -> leb x v = true).
Proof.
  induction l as [|[v t] l IH] using rev_ind.
  - exists [], []. repeat split; auto.
    + intros ? ? [].
    + intros l1' v t H. destruct l1'; discriminate.
  - rewrite rev_app_distr. cbn [rev app drop_dominated].
    destruct (leb x v) eqn:E; cbn [negb].
    + exists (l ++ [(v, t)]), []. repeat split.
      * rewrite app_nil_r. reflexivity.
      * cbn [rev]. rewrite rev_involutive. reflexivity.
      * intros ? ? [].
      * intros l1' v' t' H. apply app_inj_tail in H. destruct H as [_ H]. inversion H; subst. exact E.
    + destruct IH as (l1 & l2 & E1 & E2 & H2 & H1).
      exists l1, (l2 ++ [(v, t)]). repeat split; auto.
      * rewrite E1 at 1. rewrite app_assoc. reflexivity.
      * intros v' t' Hin. apply in_app_or in Hin. destruct Hin as [Hin|[Hin|[]]]; eauto.
        inversion Hin; subst. exact E.
Qed.

Lemma kept_all_ge x l1 :
  StronglySorted before l1 ->
  (forall l1' v t, l1 = l1' ++ [(v, t)] -> leb x v = true) ->
  forall v t, In (v, t) l1 -> leb x v = true.
Proof.
  destruct l1 as [|[v0 t0] l1' _] using rev_ind; intros Hs Hl v t Hin.
  - destruct Hin.
  - pose proof (Hl l1' v0 t0 eq_refl) as H0.
    apply in_app_or in Hin. destruct Hin as [Hin|[Hin|[]]].
    + apply SS_app_inv in Hs. destruct Hs as (_ & _ & Hc).
      destruct (Hc (v, t) (v0, t0) Hin (or_introl eq_refl)) as [_ Hb]. simpl in Hb.
      eapply Htr; eauto.
    + inversion Hin; subst. exact H0.
Qed.

(* strictly increasing timestamps below ct: the deque is no longer than the age of its front *)
Lemma sorted_len ct l :
  StronglySorted before l -> (forall v t, In (v, t) l -> t < ct) ->
  match l with [] => True | (v, t) :: _ => N.of_nat (length l) <= ct - t end.
Proof.
  induction l as [|[v t] r IH]; intros Hs Hlt; auto.
  apply StronglySorted_inv in Hs. destruct Hs as [Hs Hf].
  assert (Ht : t < ct) by (apply (Hlt v); left; reflexivity).
  destruct r as [|[v' t'] r'].
  - simpl. lia.
  - assert (IH' : N.of_nat (length ((v', t') :: r')) <= ct - t').
    { apply IH; auto. intros v1 t1 Hin. apply (Hlt v1). right. exact Hin. }
    rewrite Forall_forall in Hf. destruct (Hf (v', t') (or_introl eq_refl)) as [Hb _]. simpl in Hb.
    assert (Ht' : t' < ct) by (apply (Hlt v'); right; left; reflexivity).
    change (length ((v, t) :: (v', t') :: r')) with (S (length ((v', t') :: r'))).
    lia.
Qed.

Lemma push_back_fits {A} k (l : list A) e : (length l < k)%nat -> fst (push_back k l e) = l ++ [e].
Proof.
  intros H. unfold push_back. destruct (Nat.eqb_spec k 0); [lia|].
  destruct (Nat.ltb_spec (length l) k); [reflexivity|lia].
Qed.

Definition shift (off : N) (e : T * N) : T * N := (fst e, snd e - off).

Lemma rebase_spec off l :
  (forall v t, In (v, t) l -> off <= t) -> rebase T off l = Some (map (shift off) l).
Proof.
  induction l as [|[v t] r IH]; intros H; [reflexivity|].
  cbn [rebase map]. unfold csub. destruct (N.leb_spec off t) as [_|Hc].
  - cbn [obind]. rewrite IH; [reflexivity|]. intros v' t' Hin. apply (H v'). right. exact Hin.
  - specialize (H v t (or_introl eq_refl)). lia.
Qed.

(* subtracting a common offset from the clock and all timestamps changes nothing *)
Lemma Core_shift now l w off :
  Core now l w -> (forall v t, In (v, t) l -> off <= t) -> Core (now - off) (map (shift off) l) w.
Proof.
  intros (He & Hs & Hd) Hoff. repeat split.
  - apply in_map_iff in H. destruct H as ([v0 t0] & E & Hin). unfold shift in E. simpl in E.
    inversion E; subst. destruct (He _ _ Hin) as [Hlt _]. specialize (Hoff _ _ Hin). lia.
  - apply in_map_iff in H. destruct H as ([v0 t0] & E & Hin). unfold shift in E. simpl in E.
    inversion E; subst. destruct (He _ _ Hin) as [Hlt Hsm]. specialize (Hoff _ _ Hin).
    rewrite age_shift by lia. exact Hsm.
  - eapply SS_map_in; [|exact Hs]. intros [v1 t1] [v2 t2] H1 H2 [Hb1 Hb2].
    unfold before, shift in *. simpl in *. split; [|exact Hb2].
    specialize (Hoff _ _ H1). lia.
  - intros a u Ha Hu. destruct (Hd a u Ha Hu) as (v & t & Hin & Hage & Hle).
    exists v, (t - off). split; [|split; [|exact Hle]].
    + apply in_map_iff. exists (v, t). split; [reflexivity|exact Hin].
    + destruct (He _ _ Hin) as [Hlt _]. specialize (Hoff _ _ Hin). rewrite age_shift by lia. exact Hage.
Qed.

(* the logical content of one step, with the clock advanced virtually to ct + 1 *)
Lemma core_step ct l w x l0 l1 l2 :
  (length w <= N.to_nat n)%nat ->
  Core ct l w -> l = l0 ++ l1 ++ l2 ->
  (forall v t, In (v, t) l0 -> n <= ct - t) ->
  (forall v t, In (v, t) (l1 ++ l2) -> ct - t < n) ->
  (forall v t, In (v, t) l2 -> leb x v = false) ->
  (forall v t, In (v, t) l1 -> leb x v = true) ->
  Core (ct + 1) (l1 ++ [(x, ct)]) (lastn (N.to_nat n) (w ++ [x])).
Proof.
  intros Hlen (He & Hs & Hd) El H0 H12 H2 H1.
  assert (Hin1 : forall e, In e l1 -> In e l).
  { intros e H. subst l. apply in_or_app. right. apply in_or_app. left. exact H. }
  repeat split.
  - (* timestamps in the past *)
    apply in_app_or in H. destruct H as [H|[H|[]]].
    + destruct (He _ _ (Hin1 _ H)). lia.
    + inversion H; subst. lia.
  - (* entries are the samples of their age *)
    apply in_app_or in H. destruct H as [H|[H|[]]].
    + destruct (He _ _ (Hin1 _ H)) as [Hlt Hsm].
      assert (Hyoung : ct - t < n) by (apply (H12 v); apply in_or_app; left; exact H).
      rewrite age_succ by lia. rewrite sample_new_S by (unfold age; lia).
      destruct (Nat.leb_spec (S (age ct t)) (N.to_nat n)) as [_|Hc]; [exact Hsm|].
      unfold age in Hc. lia.
    + inversion H; subst. rewrite age_self. apply sample_new_1. lia.
  - (* order *)
    apply SS_snoc.
    + subst l. apply SS_app_inv in Hs. destruct Hs as (_ & Hs & _).
      apply SS_app_inv in Hs. destruct Hs as (Hs & _ & _). exact Hs.
    + intros [v t] Hin. split; simpl.
      * destruct (He _ _ (Hin1 _ Hin)). assumption.
      * eauto.
  - (* domination *)
    intros a u Ha Hu. destruct a as [|a]; [lia|].
    destruct a as [|a].
    + rewrite sample_new_1 in Hu by lia. inversion Hu; subst u.
      exists x, ct. split; [apply in_or_app; right; left; reflexivity|].
      split; [rewrite age_self; lia|]. destruct (Htot x x); assumption.
    + rewrite sample_new_S in Hu by lia.
      destruct (Nat.leb_spec (S (S a)) (N.to_nat n)) as [Hk|_]; [|discriminate].
      destruct (Hd (S a) u ltac:(lia) Hu) as (v & t & Hin & Hage & Hle).
      destruct (He _ _ Hin) as [Hlt _].
      subst l. apply in_app_or in Hin. destruct Hin as [Hin|Hin].
      { specialize (H0 _ _ Hin). unfold age in Hage. lia. }
      apply in_app_or in Hin. destruct Hin as [Hin|Hin].
      * exists v, t. split; [apply in_or_app; left; exact Hin|].
        split; [rewrite age_succ by lia; lia|exact Hle].
      * exists x, ct. split; [apply in_or_app; right; left; reflexivity|].
        split; [rewrite age_self; lia|].
        specialize (H2 _ _ Hin). destruct (Htot x v) as [Hc|Hc]; [congruence|].
        eapply Htr; eauto.
Qed.

(* packing up: the model's final `front().unwrap()` *)
Lemma finish now l w :
  Core now l w -> l <> [] -> now <= maxu -> (length w <= N.to_nat n)%nat ->
  exists s' y,
    match l with (v, _) :: _ => Some ({| time := now; taps := l |}, v) | [] => None end = Some (s', y) /\
    is_max leb w y /\ WF s' w.
Proof.
  intros Hc Hne Hnow Hlen. destruct l as [|[v t] r] eqn:E; [congruence|].
  eexists _, v. split; [reflexivity|]. split.
  - eapply core_front_max; eauto.
  - apply Core_WF; auto.
Qed.

Theorem step_wf s w x :
  WF s w ->
  exists s' y, step leb n maxu false s x = Some (s', y) /\
    is_max leb (lastn (N.to_nat n) (w ++ [x])) y /\
    WF s' (lastn (N.to_nat n) (w ++ [x])).
Proof.
  intros Hwf. pose proof (WF_Core _ _ Hwf) as Hcore.
  destruct Hwf as [Hclk Hlen He Hs Hd].
  set (ct := time s) in *. set (l := taps s) in *.
  set (w' := lastn (N.to_nat n) (w ++ [x])).
  assert (Hlen' : (length w' <= N.to_nat n)%nat) by (unfold w'; rewrite lastn_length; lia).
  (* expiry *)
  destruct (expire_spec ct l) as (l0 & t1 & El & Hexp & H0 & Hhd).
  { intros v t Hin. destruct (He v t Hin) as [Hlt _]. exact Hlt. }
  assert (Hs1 : StronglySorted before t1).
  { rewrite El in Hs. apply SS_app_inv in Hs. tauto. }
  assert (Hlt1 : forall v t, In (v, t) t1 -> t < ct).
  { intros v t Hin. assert (Hl : In (v, t) l) by (rewrite El; apply in_or_app; right; exact Hin).
    destruct (He v t Hl) as [Hlt _]. exact Hlt. }
  assert (Hyoung : forall v t, In (v, t) t1 -> ct - t < n).
  { destruct t1 as [|[v0 t0] r]; [intros ? ? []|].
    intros v t [Hin|Hin]; [inversion Hin; subst; exact Hhd|].
    apply StronglySorted_inv in Hs1. destruct Hs1 as [_ Hf]. rewrite Forall_forall in Hf.
    destruct (Hf _ Hin) as [Hb _]. simpl in Hb.
    pose proof (Hlt1 v t (or_intror Hin)). lia. }
  assert (Hcount : (length t1 < N.to_nat n)%nat).
  { pose proof (sorted_len ct t1 Hs1 Hlt1) as Hl.
    destruct t1 as [|[v0 t0] r]; [simpl; lia|].
    pose proof (Hyoung v0 t0 (or_introl eq_refl)). lia. }
  (* domination loop *)
  destruct (drop_spec x t1) as (l1 & l2 & E12 & Hdrop & H2 & H1).
  assert (Hs11 : StronglySorted before l1).
  { rewrite E12 in Hs1. apply SS_app_inv in Hs1. tauto. }
  pose proof (kept_all_ge x l1 Hs11 H1) as H1'.
  assert (Hfit : (length l1 < N.to_nat n)%nat).
  { rewrite E12, app_length in Hcount. lia. }
  assert (Hc' : Core (ct + 1) (l1 ++ [(x, ct)]) w').
  { apply (core_step ct l w x l0 l1 l2); auto.
    - rewrite El, E12. reflexivity.
    - rewrite <- E12. exact Hyoung. }
  assert (Hne : l1 ++ [(x, ct)] <> []).
  { intros H. apply app_eq_nil in H. destruct H; discriminate. }
  (* run the model *)
  unfold step. fold ct. fold l. rewrite Hexp. cbn [obind]. rewrite Hdrop.
  rewrite push_back_fits by exact Hfit.
  destruct (N.ltb_spec ct maxu) as [Hlt|Hge].
  - (* ordinary tick *)
    cbn [obind]. apply finish; auto. lia.
  - (* the clock is at maxu: rebase *)
    assert (Hct : ct = maxu) by lia.
    unfold csub at 1. destruct (N.leb_spec n ct) as [_|Hc]; [|lia]. cbn [obind].
    rewrite rebase_spec.
    2:{ intros v t Hin. apply in_app_or in Hin. destruct Hin as [Hin|[Hin|[]]].
        - assert (Hin' : In (v, t) t1) by (rewrite E12; apply in_or_app; left; exact Hin).
          pose proof (Hyoung _ _ Hin'). pose proof (Hlt1 _ _ Hin'). lia.
        - inversion Hin; subst. lia. }
    cbn [obind]. unfold cadd. destruct (N.leb_spec (n + 1) maxu) as [_|Hc]; [|lia]. cbn [obind].
    assert (Hc'' : Core (n + 1) (map (shift (ct - n)) (l1 ++ [(x, ct)])) w').
    { replace (n + 1) with (ct + 1 - (ct - n)) by lia. apply Core_shift; [exact Hc'|].
      intros v t Hin. apply in_app_or in Hin. destruct Hin as [Hin|[Hin|[]]].
      - assert (Hin' : In (v, t) t1) by (rewrite E12; apply in_or_app; left; exact Hin).
        pose proof (Hyoung _ _ Hin'). pose proof (Hlt1 _ _ Hin'). lia.
      - inversion Hin; subst. lia. }
    apply finish; auto.
    intros H. apply map_eq_nil in H. contradiction.
Qed.
End Step.

(* ------------------------------------------------------------------------------------------ *)
(* The statements used by Props/C04.v                                                         *)

Arguments WF {T}.

Theorem max_step_wf :
  forall (T : Type) (leb : T -> T -> bool), total_preorder leb ->
  forall n maxu, 1 <= n -> n + 1 <= maxu -> forall s w x,
  WF leb n maxu s w ->
  exists s' y, max_step leb n maxu false s x = Some (s', y) /\
    is_max leb (lastn (N.to_nat n) (w ++ [x])) y /\
    WF leb n maxu s' (lastn (N.to_nat n) (w ++ [x])).
Proof. intros T leb [Htot Htr] n maxu Hn Hnm s w x H. unfold max_step. apply step_wf; auto. Qed.

Theorem wf_init : forall (T : Type) (leb : T -> T -> bool) n maxu, WF leb n maxu (@init T) [].
Proof.
  intros. constructor; simpl.
  - lia.
  - lia.
  - intros ? ? [].
  - constructor.
  - intros a u _ H. unfold sample in H. simpl in H. destruct (a - 1)%nat; discriminate.
Qed.

Lemma run_wf (T : Type) (leb : T -> T -> bool) (Hto : total_preorder leb) n maxu
      (Hn : 1 <= n) (Hnm : n + 1 <= maxu) :
  forall hist s w, WF leb n maxu s w ->
  exists s', oexec (max_step leb n maxu false) s hist = Some s' /\
             WF leb n maxu s' (lastn (N.to_nat n) (w ++ hist)).
Proof.
  induction hist as [|x r IH]; intros s w H.
  - exists s. split; [reflexivity|]. rewrite app_nil_r, lastn_all; [exact H|]. apply (wf_width _ _ _ _ _ H).
  - destruct (max_step_wf T leb Hto n maxu Hn Hnm s w x H) as (s1 & y & E & _ & H1).
    destruct (IH _ _ H1) as (s' & E' & H').
    exists s'. split.
    + cbn [oexec]. rewrite E. exact E'.
    + rewrite lastn_idem_app, <- app_assoc in H'. exact H'.
Qed.

Theorem max_run :
  forall (T : Type) (leb : T -> T -> bool), total_preorder leb ->
  forall n maxu, 1 <= n -> n + 1 <= maxu -> forall hist x,
  exists s s' y, oexec (max_step leb n maxu false) init hist = Some s /\
    max_step leb n maxu false s x = Some (s', y) /\
    is_max leb (lastn (N.to_nat n) (hist ++ [x])) y.
Proof.
  intros T leb Hto n maxu Hn Hnm hist x.
  destruct (run_wf T leb Hto n maxu Hn Hnm hist init [] (wf_init T leb n maxu)) as (s & E & H).
  simpl app in H.
  destruct (max_step_wf T leb Hto n maxu Hn Hnm s _ x H) as (s' & y & E' & Hmax & _).
  exists s, s', y. repeat split; auto.
  - rewrite lastn_idem_app in Hmax. apply Hmax.
  - rewrite lastn_idem_app in Hmax. apply Hmax.
Qed.

Lemma total_preorder_flip {T} (leb : T -> T -> bool) :
  total_preorder leb -> total_preorder (fun a b => leb b a).
Proof. intros [H1 H2]. split; [intros a b; apply H1|intros a b c Hab Hbc; eapply H2; eauto]. Qed.

Theorem min_run :
  forall (T : Type) (leb : T -> T -> bool), total_preorder leb ->
  forall n maxu, 1 <= n -> n + 1 <= maxu -> forall hist x,
  exists s s' y, oexec (min_step leb n maxu false) init hist = Some s /\
    min_step leb n maxu false s x = Some (s', y) /\
    is_max (fun a b => leb b a) (lastn (N.to_nat n) (hist ++ [x])) y.
Proof.
  intros T leb Hto n maxu Hn Hnm hist x.
  exact (max_run T (fun a b => leb b a) (total_preorder_flip leb Hto) n maxu Hn Hnm hist x).
Qed.

Lemma oexec_bounds {T} (leb : T -> T -> bool) n maxu hist :
  forall a0 b0 a b,
  oexec (min_step leb n maxu false) a0 hist = Some a ->
  oexec (max_step leb n maxu false) b0 hist = Some b ->
  oexec (bounds_step leb n maxu false) (a0, b0) hist = Some (a, b).
Proof.
  induction hist as [|x r IH]; intros a0 b0 a b Ha Hb.
  - simpl in *. congruence.
  - cbn [oexec] in *. unfold bounds_step at 1. cbn [fst snd].
    destruct (min_step leb n maxu false a0 x) as [[a1 lo]|]; [|discriminate].
    destruct (max_step leb n maxu false b0 x) as [[b1 hi]|]; [|discriminate].
    cbn [obind]. apply IH; assumption.
Qed.

Theorem bounds_run :
  forall (T : Type) (leb : T -> T -> bool), total_preorder leb ->
  forall n maxu, 1 <= n -> n + 1 <= maxu -> forall hist x,
  exists s s' lo hi, oexec (bounds_step leb n maxu false) (init, init) hist = Some s /\
    bounds_step leb n maxu false s x = Some (s', (lo, hi)) /\
    is_max (fun a b => leb b a) (lastn (N.to_nat n) (hist ++ [x])) lo /\
    is_max leb (lastn (N.to_nat n) (hist ++ [x])) hi.
Proof.
  intros T leb Hto n maxu Hn Hnm hist x.
  destruct (min_run T leb Hto n maxu Hn Hnm hist x) as (a & a' & lo & Ea & Ea' & Hlo).
  destruct (max_run T leb Hto n maxu Hn Hnm hist x) as (b & b' & hi & Eb & Eb' & Hhi).
  exists (a, b), (a', b'), lo, hi. repeat split; try apply Hlo; try apply Hhi.
  - apply oexec_bounds; assumption.
  - unfold bounds_step. cbn [fst snd]. rewrite Ea', Eb'. reflexivity.
Qed.

(* ------------------------------------------------------------------------------------------ *)
(* Non-vacuity at the end of the 64-bit range, and the code before the repair                 *)

Theorem wf_example_end_of_range :
  WF Z.leb 3 usize_max
     {| time := usize_max; taps := [(10%Z, usize_max - 2); (5%Z, usize_max - 1)] |} [10%Z; 5%Z] /\
  omap_outputs (orun (max_step Z.leb 3 usize_max false)
     {| time := usize_max; taps := [(10%Z, usize_max - 2); (5%Z, usize_max - 1)] |} [1%Z; 0%Z; 0%Z; 0%Z])
    = Some [10%Z; 5%Z; 1%Z; 0%Z].
Proof.
  split; [|vm_compute; reflexivity].
  constructor; cbn [time taps].
  - apply N.le_refl.
  - vm_compute. repeat constructor.
  - intros v t [H|[H|[]]]; inversion H; subst; split; vm_compute; reflexivity.
  - repeat constructor; vm_compute; reflexivity.
  - intros a u Ha H.
    destruct a as [|[|[|a]]].
    + lia.
    + vm_compute in H. inversion H; subst.
      exists 5%Z, (usize_max - 1). split; [right; left; reflexivity|]. split; vm_compute; repeat constructor.
    + vm_compute in H. inversion H; subst.
      exists 10%Z, (usize_max - 2). split; [left; reflexivity|]. split; vm_compute; repeat constructor.
    + unfold sample in H. replace (S (S (S a)) - 1)%nat with (S (S a)) in H by lia.
      simpl in H. destruct a; discriminate.
Qed.

Theorem old_code_refuted :
  max_step Z.leb 3 usize_max true {| time := usize_max - 1; taps := [(10%Z, usize_max - 2)] |} 5%Z = None.
Proof. vm_compute. reflexivity. Qed.
