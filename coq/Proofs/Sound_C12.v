(* C12 — no false alarm for the reset checker of Check/C12.v.

   The checker's model comparison (bit 1) covers only TWO of the four things the harness records:
   couts_hist (outputs on the history) and couts_reset (outputs on the probe after reset()).  The spec
   (bit 2) is stated on the other two as well: couts_fresh (a freshly built filter on the probe) and
   ccfg_same (config() unchanged by reset).  The model has an opinion on both -- the fresh run is
   run_m from minit, and the configuration is a parameter that mreset cannot change -- but `check`
   never compares them.  So "bit 1 clear" has to be completed by the side condition below: ALL recorded
   observations agree with the model, not just the two `check` looks at.  Under that reading the spec
   can never fire: this is C12_registry_reset_fresh (reset gives the fresh state for every registry
   entry, and for the default entry m_mean used for out-of-range indices).

   Without the side condition bit 2 alone is reachable (C12_alarm_* below); those are TRUE alarms of the
   spec on observations the model comparison does not look at, not false ones. *)
From Coq Require Import NArith Lia.
From Signalo Require Import Check.Common Model.Registry Proofs.Registry Props.C12 Check.C12 Proofs.Sound_LibB.

(* ---------- run_m against oexec / orun ---------- *)
Lemma run_m_oexec m c xs : forall s o s', run_m m c s xs = (o, Some s') -> oexec (mstep m c) s xs = Some s'.
Proof.
  induction xs as [|x xs IH]; intros s o s' H; cbn [run_m oexec] in *.
  - injection H as _ <-. reflexivity.
  - destruct (mstep m c s x) as [[s1 y]|]; [|discriminate].
    destruct (run_m m c s1 xs) as [ys f] eqn:E. injection H as _ ->. apply (IH _ _ _ E).
Qed.
Lemma run_m_length m c xs : forall s o s', run_m m c s xs = (o, Some s') -> length o = length xs.
Proof.
  induction xs as [|x xs IH]; intros s o s' H; cbn [run_m] in *.
  - injection H as <- _. reflexivity.
  - destruct (mstep m c s x) as [[s1 y]|]; [|discriminate].
    destruct (run_m m c s1 xs) as [ys f] eqn:E. injection H as <- ->. cbn [length]. f_equal. apply (IH _ _ _ E).
Qed.

(* every index denotes a machine whose reset gives the fresh state *)
Lemma nth_reset_fresh n : reset_fresh (nth n registry m_mean).
Proof.
  pose proof C12_registry_reset_fresh as F. rewrite Forall_forall in F.
  destruct (nth_in_or_default n registry m_mean) as [H|H]; [apply F, H | rewrite H; apply rf_mean].
Qed.

(* Side condition: the two recorded observations that `check` does not compare with the model agree with it.
   (a) ccfg_same: in the model the configuration is an argument of mreset, not part of the state, so the model's
       answer to "is config() unchanged by reset" is always true (and mreset of a Cache clears `cached`);
   (b) couts_fresh is what the model returns from the freshly constructed state on the probe, and the model does
       not panic on the probe (second component Some).
   Generated cases of a correct implementation satisfy both: the harness only records a probe output list of full
   length when no panic occurred (otherwise cpanic is set, bit 1 is set and the statement is vacuous), the
   generators draw the probe from the same panic-free input classes as the history, and a fresh filter is the
   very thing minit models (C03..C18 check it per filter). *)
Definition wf (c : case) : bool :=
  let m := nth (ce c) registry m_mean in
  let '(ofr, f) := run_m m (ccfg c) (minit m (ccfg c)) (cprobe c) in
  ccfg_same c && ll_eqb ofr (couts_fresh c) && is_some f.

Theorem C12_check_sound : forall c : case, wf c = true -> N.land (code (check c)) 3 <> 2%N.
Proof.
  intros c Hwf. unfold wf in Hwf. unfold check.
  set (m := nth (ce c) registry m_mean) in *.
  destruct (run_m m (ccfg c) (minit m (ccfg c)) (cprobe c)) as [ofr ff] eqn:Efr.
  apply andb_prop in Hwf as [Hwf Hsome]. apply andb_prop in Hwf as [Hcfg Hfresh].
  destruct ff as [sf|]; [|discriminate].
  destruct (run_m m (ccfg c) (minit m (ccfg c)) (chist c)) as [oh f] eqn:Eh.
  apply mkv_sound. intros H.
  apply andb_prop in H as [H Hres]. apply andb_prop in H as [Hp _].
  destruct f as [s|]; [|discriminate].
  pose proof (nth_reset_fresh (ce c) (ccfg c) (chist c) s (run_m_oexec _ _ _ _ _ _ Eh)) as Hrf.
  fold m in Hrf. rewrite Hrf, Efr in Hres.
  unfold ll_eqb in *. apply tl_eqb_iff in Hres. apply tl_eqb_iff in Hfresh.
  rewrite Hp, Hcfg. cbn [andb].
  apply andb_true_intro. split.
  - rewrite Bool.andb_true_r. apply tl_eqb_iff. etransitivity; [symmetry; exact Hres | exact Hfresh].
  - apply Nat.eqb_eq. rewrite <- (Forall2_length' _ _ _ Hres). apply (run_m_length _ _ _ _ _ _ Efr).
Qed.
Print Assumptions C12_check_sound.

(* ---------- each conjunct of wf is needed: bit 2 alone without it ---------- *)
(* entry 17 = m_integrate, history [1], probe [1]: model says history output [1], after reset [1], fresh [1] *)
(* (a) the implementation reports a changed configuration: spec fires, model comparison does not look *)
Example C12_alarm_cfg : N.land (code (check (mk 17 [] [[1]] [[1]] [[1]] [[1]] [[1]] false false))) 3 = 2%N.
Proof. vm_compute. reflexivity. Qed.
(* (b) the freshly built filter of the implementation deviates from minit: spec fires, model comparison does not look *)
Example C12_alarm_fresh : N.land (code (check (mk 17 [] [[1]] [[1]] [[1]] [[1]] [[2]] true false))) 3 = 2%N.
Proof. vm_compute. reflexivity. Qed.
(* (c) the model panics on the probe (entry 4 = median, width 0): the recorded, truncated, outputs agree with the
   model, no panic flag, the fresh run is truncated the same way -- only the length clause of the spec fires *)
Example C12_alarm_model_panic : exists c, N.land (code (check c)) 3 = 2%N /\ ccfg_same c = true /\
  ll_eqb (fst (run_m (nth (ce c) registry m_mean) (ccfg c) (minit _ (ccfg c)) (cprobe c))) (couts_fresh c) = true.
Proof. exists (mk 4 [0] [] [[1]] [] [] [] true false). vm_compute. repeat split. Qed.
