(* Median proof: the insertion loop of insert_value. *)
From Coq Require Import List Arith Lia Bool Permutation ZifyNat.
From Signalo Require Import Model.Median Spec.C02 Proofs.MedianBase Proofs.MedianSort Proofs.MedianPtr.
Import ListNotations.

Lemma is_some_nth_error {A} (l : list A) j : is_some (nth_error l j) = (j <? length l).
Proof.
  revert j; induction l as [|y l IH]; intros [|j]; simpl; auto. rewrite IH. reflexivity.
Qed.

(* number of median hops made by loop indices < k: index j hops iff it is odd and the node it
   visits holds a value, i.e. j < r (old valued nodes) or j = N-1 (wrap-around to the start) *)
Fixpoint hops (r N k : nat) : nat :=
  match k with
  | 0 => 0
  | S k' => hops r N k' + (if Nat.odd k' && ((k' <? r) || (k' =? N - 1)) then 1 else 0)
  end.

Lemma hops_small r N k : k <= N - 1 -> hops r N k = Nat.min k r / 2.
Proof.
  induction k as [|k IH]; intros Hk.
  - reflexivity.
  - cbn [hops]. rewrite IH by lia.
    destruct (Nat.eqb_spec k (N - 1)) as [E|E]; [lia|]. rewrite orb_false_r.
    destruct (Nat.ltb_spec k r) as [L|L].
    + rewrite andb_true_r. replace (Nat.min k r) with k by lia. replace (Nat.min (S k) r) with (S k) by lia.
      destruct (Nat.odd k) eqn:Eo.
      * rewrite half_S_odd by auto. lia.
      * rewrite half_S_even by auto. lia.
    + rewrite andb_false_r. replace (Nat.min k r) with r by lia. replace (Nat.min (S k) r) with r by lia. lia.
Qed.

Lemma hops_full r N : 1 <= N -> r <= N - 1 ->
  hops r N N = r / 2 + (if Nat.even N then 1 else 0).
Proof.
  intros HN Hr. destruct N as [|n]; [lia|]. cbn [hops].
  rewrite hops_small by lia. replace (S n - 1) with n by lia.
  rewrite Nat.eqb_refl, orb_true_r, andb_true_r. rewrite Nat.even_succ.
  replace (Nat.min n r) with r by lia. reflexivity.
Qed.

Section Loop.
Variable T : Type.
Variable leb : T -> T -> bool.
Notation node := (node T).
Implicit Types (b : list node).

(* ----- single steps ----- *)
Lemma loop_step_true b k rest c x med cur : cur < length b -> med < length b ->
  insert_loop T leb (k :: rest) c x b med cur true =
  insert_loop T leb rest c x b (if Nat.odd k && is_some (vl b cur) then nx b med else med) (nx b cur) true.
Proof.
  intros Hc Hm. cbn [insert_loop obind]. unfold shift_median.
  rewrite (getn_lt T b cur Hc). cbn [obind]. fold (vl b cur).
  destruct (Nat.odd k && is_some (vl b cur)).
  - rewrite (getn_lt T b med Hm). cbn [obind]. reflexivity.
  - cbn [obind]. reflexivity.
Qed.

Lemma loop_step_noins b k rest c x med cur w : cur < length b -> med < length b ->
  vl b cur = Some w -> (k + 1 =? length b) || leb x w = false ->
  insert_loop T leb (k :: rest) c x b med cur false =
  insert_loop T leb rest c x b (if Nat.odd k then nx b med else med) (nx b cur) false.
Proof.
  intros Hc Hm Hv Hf. cbn [insert_loop]. unfold should_insert.
  rewrite (getn_lt T b cur Hc). cbn [obind]. fold (vl b cur). rewrite Hv, Hf. cbn [obind].
  unfold shift_median. rewrite (getn_lt T b cur Hc). cbn [obind]. fold (vl b cur). rewrite Hv.
  cbn [is_some]. rewrite andb_true_r.
  destruct (Nat.odd k).
  - rewrite (getn_lt T b med Hm). cbn [obind]. reflexivity.
  - cbn [obind]. reflexivity.
Qed.

Lemma loop_step_insert b k rest c x med cur : cur < length b -> med < length b ->
  c < length b -> pv b cur < length b ->
  match vl b cur with Some w => (k + 1 =? length b) || leb x w | None => true end = true ->
  let b' := link b c cur x in
  insert_loop T leb (k :: rest) c x b med cur false =
  insert_loop T leb rest c x b' (if Nat.odd k && is_some (vl b' cur) then nx b' med else med) (nx b' cur) true.
Proof.
  intros Hc Hm Hcc Hp Hf b'. cbn [insert_loop]. unfold should_insert.
  rewrite (getn_lt T b cur Hc). cbn [obind]. fold (vl b cur).
  assert (E : match vl b cur with Some w => Some ((k + 1 =? length b) || leb x w) | None => Some true end = Some true).
  { destruct (vl b cur); [rewrite Hf|]; reflexivity. }
  rewrite E. cbn [obind]. rewrite insert_eq by assumption. cbn [obind]. fold b'.
  assert (Hl : length b' = length b) by apply link_length.
  unfold shift_median. rewrite (getn_lt T b' cur) by lia. cbn [obind]. fold (vl b' cur).
  destruct (Nat.odd k && is_some (vl b' cur)).
  - rewrite (getn_lt T b' med) by lia. cbn [obind]. reflexivity.
  - cbn [obind]. reflexivity.
Qed.

(* ----- the whole loop ----- *)
Variable x : T.
Variable c N : nat.
Variable b0 : list node.
Variable ring0 : list nat.
Variable sorted0 : list T.
Hypothesis HN : 2 <= N.
Hypothesis Hlen : length b0 = N.
Hypothesis L0 : LinkedI b0 ring0.
Hypothesis Hring0 : length ring0 = N - 1.
Hypothesis Hc : c < N.
Hypothesis Hcnot : ~ In c ring0.
Hypothesis Hr : length sorted0 <= N - 1.
Hypothesis Hv0 : forall k, k < N - 1 -> vl b0 (nth k ring0 0) = nth_error sorted0 k.

Local Notation r := (length sorted0).
Local Notation p := (ipos T leb x sorted0).
Local Notation e := (if ipos T leb x sorted0 =? 0 then 1 else 0).
Local Notation R := (ins_at (ipos T leb x sorted0) c ring0).
Local Notation b' := (link b0 c (at_ ring0 (ipos T leb x sorted0)) x).
Local Notation sorted' := (ins_at (ipos T leb x sorted0) x sorted0).

Lemma p_le_r : p <= r.
Proof. apply ipos_le. Qed.

Lemma ring0_ne : ring0 <> [].
Proof. apply (lk_ne _ _ _ L0). Qed.

Lemma at0_lt k : at_ ring0 k < length b0.
Proof. eapply linked_lt; [exact L0|]. apply at_in. apply ring0_ne. Qed.

Lemma loop_link : LinkedI b' R /\ (forall j, vl b' j = if j =? c then Some x else vl b0 j).
Proof.
  apply link_linked; auto; try lia. rewrite Hring0. pose proof p_le_r. lia.
Qed.

Lemma R_length : length R = N.
Proof. rewrite ins_at_length. lia. Qed.

Lemma b'_length : length b' = N.
Proof. rewrite link_length. exact Hlen. Qed.

Lemma loop_vals : forall j, j < N -> vl b' (nth j R 0) = nth_error sorted' j.
Proof.
  intros j Hj. destruct loop_link as [_ Fvl]. pose proof p_le_r as Hp.
  rewrite nth_ins_at by lia. rewrite nth_error_ins_at by lia.
  assert (Hne : forall i, i < N - 1 -> nth i ring0 0 <> c).
  { intros i Hi E. apply Hcnot. rewrite <- E. apply nth_In. lia. }
  rewrite Fvl.
  destruct (Nat.ltb_spec j p).
  - destruct (Nat.eqb_spec (nth j ring0 0) c) as [E|E]; [exfalso; eapply Hne; [|exact E]; lia|].
    apply Hv0. lia.
  - destruct (Nat.eqb_spec j p).
    + rewrite Nat.eqb_refl. reflexivity.
    + destruct (Nat.eqb_spec (nth (j - 1) ring0 0) c) as [E|E]; [exfalso; eapply Hne; [|exact E]; lia|].
      apply Hv0. lia.
Qed.

Lemma sorted'_length : length sorted' = S r.
Proof. apply ins_at_length. Qed.

Lemma loop_valued k : k < N -> is_some (vl b' (at_ R (S k))) = (k <? r) || (k =? N - 1).
Proof.
  intros Hk. rewrite at_S_lt by (rewrite R_length; lia). rewrite R_length.
  destruct (Nat.eqb_spec (S k) N) as [E|E].
  - rewrite loop_vals by lia. rewrite is_some_nth_error, sorted'_length.
    destruct (Nat.eqb_spec k (N - 1)); [|lia]. rewrite orb_true_r. reflexivity.
  - rewrite loop_vals by lia. rewrite is_some_nth_error, sorted'_length.
    destruct (Nat.eqb_spec k (N - 1)); [lia|]. rewrite orb_false_r.
    destruct (Nat.ltb_spec k r); destruct (Nat.ltb_spec (S k) (S r)); try lia; reflexivity.
Qed.

(* coordinates: old ring vs new ring *)
Lemma conv_med : at_ ring0 (p / 2) = at_ R (p / 2 + e).
Proof.
  pose proof p_le_r as Hp.
  destruct (Nat.eqb_spec p 0) as [E|E].
  - rewrite (at_lt (ins_at _ _ _)) by (rewrite R_length; lia). rewrite nth_ins_at by lia.
    rewrite E. change (0 / 2) with 0. rewrite at_0 by apply ring0_ne. reflexivity.
  - assert (p / 2 < p) by lia. rewrite Nat.add_0_r.
    rewrite at_lt by lia. rewrite at_lt by (rewrite R_length; lia).
    rewrite nth_ins_at by lia. destruct (Nat.ltb_spec (p / 2) p); [reflexivity|lia].
Qed.

Lemma conv_cur : at_ ring0 p = at_ R (S p).
Proof.
  pose proof p_le_r as Hp.
  destruct (Nat.eq_dec p (N - 1)) as [E|E].
  - assert (E1 : at_ ring0 p = nth 0 ring0 0).
    { rewrite E, <- Hring0. apply at_len. apply ring0_ne. }
    assert (E2 : at_ R (S p) = nth 0 R 0).
    { replace (S p) with (length R) by (rewrite R_length; lia). apply at_len.
      intros E0. pose proof R_length as HR. rewrite E0 in HR. simpl in HR. lia. }
    rewrite E1, E2. rewrite nth_ins_at by lia. destruct (Nat.ltb_spec 0 p); [reflexivity|lia].
  - rewrite at_lt by lia. rewrite (at_lt (ins_at _ _ _)) by (rewrite R_length; lia).
    rewrite nth_ins_at by lia.
    destruct (Nat.ltb_spec (S p) p); [lia|]. destruct (Nat.eqb_spec (S p) p); [lia|].
    replace (S p - 1) with p by lia. reflexivity.
Qed.

Lemma loop_pre : forall d k, k + d = p ->
  insert_loop T leb (seq k (N - k)) c x b0 (at_ ring0 (k / 2)) (at_ ring0 k) false =
  insert_loop T leb (seq p (N - p)) c x b0 (at_ ring0 (p / 2)) (at_ ring0 p) false.
Proof.
  pose proof p_le_r as Hp.
  induction d as [|d IH]; intros k Hk.
  - replace k with p by lia. reflexivity.
  - replace (N - k) with (S (N - S k)) by lia. cbn [seq].
    destruct (ipos_before T leb x sorted0 k) as [w [Hw Hf]]; [lia|].
    rewrite (loop_step_noins b0 k _ c x _ _ w).
    + rewrite !(lk_nx _ _ _ L0). rewrite <- (IH (S k)) by lia. f_equal.
      destruct (Nat.odd k) eqn:Eo.
      * rewrite half_S_odd by auto. reflexivity.
      * rewrite half_S_even by auto. reflexivity.
    + apply at0_lt.
    + apply at0_lt.
    + rewrite at_lt by lia. rewrite Hv0 by lia. exact Hw.
    + rewrite Hf, orb_false_r. apply Nat.eqb_neq. lia.
Qed.

Lemma atR_lt k : at_ R k < length b'.
Proof.
  destruct loop_link as [L _]. eapply linked_lt; [exact L|]. apply at_in. apply (lk_ne _ _ _ L).
Qed.

Lemma post_med k : k < N ->
  (if Nat.odd k && is_some (vl b' (at_ R (S k))) then nx b' (at_ R (hops r N k + e)) else at_ R (hops r N k + e))
  = at_ R (hops r N (S k) + e).
Proof.
  intros Hk. destruct loop_link as [L _]. rewrite loop_valued by exact Hk. cbn [hops].
  destruct (Nat.odd k && ((k <? r) || (k =? N - 1))).
  - rewrite (lk_nx _ _ _ L). f_equal. lia.
  - f_equal. lia.
Qed.

Lemma loop_post : forall d k, k + d = N ->
  insert_loop T leb (seq k (N - k)) c x b' (at_ R (hops r N k + e)) (at_ R (S k)) true =
  Some (b', at_ R (hops r N N + e)).
Proof.
  destruct loop_link as [L _].
  induction d as [|d IH]; intros k Hk.
  - replace k with N by lia. rewrite Nat.sub_diag. reflexivity.
  - replace (N - k) with (S (N - S k)) by lia. cbn [seq].
    rewrite loop_step_true by apply atR_lt.
    rewrite post_med by lia. rewrite (lk_nx _ _ _ L). apply IH. lia.
Qed.

Lemma insert_loop_spec :
  insert_loop T leb (seq 0 N) c x b0 (nth 0 ring0 0) (nth 0 ring0 0) false =
  Some (b', at_ R (r / 2 + (if Nat.even N then 1 else 0) + e)).
Proof.
  pose proof p_le_r as Hp. destruct loop_link as [L Fvl].
  rewrite <- (at_0 ring0) by apply ring0_ne.
  replace (seq 0 N) with (seq 0 (N - 0)) by (f_equal; lia).
  change (at_ ring0 0) with (at_ ring0 (0 / 2)) at 1.
  rewrite (loop_pre p 0) by lia.
  replace (N - p) with (S (N - S p)) by lia. cbn [seq].
  rewrite loop_step_insert.
  - assert (Eh : p / 2 = hops r N p) by (rewrite hops_small by lia; f_equal; lia).
    set (B := link b0 c (at_ ring0 p) x).
    rewrite conv_cur. rewrite conv_med. rewrite Eh. subst B. rewrite post_med by lia. rewrite (lk_nx _ _ _ L).
    rewrite (loop_post (N - S p)) by lia. rewrite hops_full by lia. reflexivity.
  - apply at0_lt.
  - apply at0_lt.
  - lia.
  - eapply linked_lt; [exact L0|]. apply linked_pv_in; auto. apply at_in. apply ring0_ne.
  - rewrite Hlen. destruct (Nat.eq_dec p (N - 1)) as [E|E].
    + replace (p + 1 =? N) with true by (symmetry; apply Nat.eqb_eq; lia).
      destruct (vl b0 (at_ ring0 p)); reflexivity.
    + rewrite at_lt by lia. rewrite Hv0 by lia.
      destruct (Nat.eq_dec p r) as [E2|E2].
      * replace (nth_error sorted0 p) with (@None T); [reflexivity|].
        symmetry. apply nth_error_None. lia.
      * destruct (ipos_at T leb x sorted0) as [w [Hw Ht]]; [lia|].
        rewrite Hw, Ht. apply orb_true_r.
Qed.

(* update_head fires exactly when the insertion position is 0 *)
Lemma fire_spec :
  match vl b' (nth 0 ring0 0) with Some hv => leb x hv | None => true end = (p =? 0).
Proof.
  destruct loop_link as [_ Fvl]. rewrite Fvl.
  destruct (Nat.eqb_spec (nth 0 ring0 0) c) as [E|E].
  - exfalso. apply Hcnot. rewrite <- E. apply nth_In. lia.
  - rewrite Hv0 by lia. rewrite ipos_zero. destruct sorted0; reflexivity.
Qed.

End Loop.
