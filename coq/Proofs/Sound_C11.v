(* C11 — no false alarm: whenever the recorded sink outputs agree with the model (bit 1 clear),
   the boolean batch-statistics spec of Check/C11 accepts them (bit 2 clear). *)
From Coq Require Import NArith Morphisms.
From Signalo Require Import Check.Common Model.Sinks Proofs.Sinks Check.C11 Proofs.Sound_LibB.

Lemma prefixes_prefs xs : prefixes xs = prefs xs.
Proof. reflexivity. Qed.

Lemma Forall2_map_r {A B C} (R : A -> C -> Prop) (g : B -> C) a b :
  Forall2 (fun x y => R x (g y)) a b -> Forall2 R a (map g b).
Proof. intros F; induction F; simpl; constructor; auto. Qed.

(* ---------- batch min / max of the spec are least / greatest elements ---------- *)
Lemma lmin_fold d l :
  let r := fold_right (fun x acc => if qltb x acc then x else acc) d l in
  (r = d \/ In r l) /\ r <= d /\ forall v, In v l -> r <= v.
Proof.
  induction l as [|a l IH]; cbn [fold_right].
  - split; [left; reflexivity|]. split; [apply Qle_refl|]. intros v [].
  - cbv zeta in IH. destruct IH as (Hin & Hd & Hall).
    set (r := fold_right (fun x acc => if qltb x acc then x else acc) d l) in *.
    destruct (qltb a r) eqn:E.
    + apply qltb_true in E. split; [right; left; reflexivity|].
      split; [apply Qle_trans with r; [apply Qlt_le_weak, E | exact Hd]|].
      intros v [<-|Hv]; [apply Qle_refl|]. apply Qle_trans with r; [apply Qlt_le_weak, E | apply Hall, Hv].
    + apply qltb_false in E. split; [destruct Hin as [Hin|Hin]; [left; exact Hin | right; right; exact Hin]|].
      split; [exact Hd|]. intros v [<-|Hv]; [exact E | apply Hall, Hv].
Qed.
Lemma lmax_fold d l :
  let r := fold_right (fun x acc => if qltb acc x then x else acc) d l in
  (r = d \/ In r l) /\ d <= r /\ forall v, In v l -> v <= r.
Proof.
  induction l as [|a l IH]; cbn [fold_right].
  - split; [left; reflexivity|]. split; [apply Qle_refl|]. intros v [].
  - cbv zeta in IH. destruct IH as (Hin & Hd & Hall).
    set (r := fold_right (fun x acc => if qltb acc x then x else acc) d l) in *.
    destruct (qltb r a) eqn:E.
    + apply qltb_true in E. split; [right; left; reflexivity|].
      split; [apply Qle_trans with r; [exact Hd | apply Qlt_le_weak, E]|].
      intros v [<-|Hv]; [apply Qle_refl|]. apply Qle_trans with r; [apply Hall, Hv | apply Qlt_le_weak, E].
    + apply qltb_false in E. split; [destruct Hin as [Hin|Hin]; [left; exact Hin | right; right; exact Hin]|].
      split; [exact Hd|]. intros v [<-|Hv]; [exact E | apply Hall, Hv].
Qed.
Lemma lmin_least x r : is_least (x :: r) (lmin (x :: r)).
Proof.
  unfold lmin. cbn [hd]. destruct (lmin_fold x (x :: r)) as (Hin & _ & Hall). split; [|exact Hall].
  destruct Hin as [Hin|Hin]; [rewrite Hin; left; reflexivity | exact Hin].
Qed.
Lemma lmax_greatest x r : is_greatest (x :: r) (lmax (x :: r)).
Proof.
  unfold lmax. cbn [hd]. destruct (lmax_fold x (x :: r)) as (Hin & _ & Hall). split; [|exact Hall].
  destruct Hin as [Hin|Hin]; [rewrite Hin; left; reflexivity | exact Hin].
Qed.
Lemma least_unique xs a b : is_least xs a -> is_least xs b -> a == b.
Proof. intros [Ia La] [Ib Lb]. apply Qle_antisym; [apply La, Ib | apply Lb, Ia]. Qed.
Lemma greatest_unique xs a b : is_greatest xs a -> is_greatest xs b -> a == b.
Proof. intros [Ia La] [Ib Lb]. apply Qle_antisym; [apply Lb, Ia | apply La, Ib]. Qed.

Lemma sqdevq_sqdev xs m : sqdevq xs m = sqdev xs m.
Proof. induction xs as [|x xs IH]; [reflexivity|]. unfold sqdevq in *. cbn [fold_right sqdev]. rewrite IH. reflexivity. Qed.

Lemma snoc_cons {A} (hist : list A) x : exists a r, hist ++ [x] = a :: r.
Proof. destruct hist as [|a r]; [exists x, []|exists a, (r ++ [x])]; reflexivity. Qed.

(* ---------- finalize: the model's result is the batch statistic ---------- *)
Lemma varq_ok xs m v : xs <> [] -> m == meanq xs ->
  ((2 <= length xs)%nat -> v == sqdev xs m / (qnat (length xs) - 1)) ->
  (length xs = 1%nat -> v == 0) -> varq xs == v.
Proof.
  intros Hne Hm H2 H1. unfold varq. destruct (length xs <=? 1)%nat eqn:E.
  - apply Nat.leb_le in E. destruct xs as [|a [|b r]]; [congruence| |simpl in E; lia]. symmetry. apply H1. reflexivity.
  - apply Nat.leb_gt in E. rewrite H2 by lia. rewrite sqdevq_sqdev, Hm. reflexivity.
Qed.

Lemma fin_ok k xs : (k <= 8)%nat -> oeq qleq (spec_fin k xs) (model_fin k xs).
Proof.
  intros Hk. destruct xs as [|x0 r0].
  { do 9 (destruct k as [|k]; [vm_compute; auto|]). lia. }
  set (xs := x0 :: r0). assert (Hne : xs <> []) by discriminate.
  destruct k as [|[|[|[|[|[|[|[|[|k]]]]]]]]]; [| | | | | | | | |lia]; cbn [spec_fin model_fin]; fold xs.
  - pose proof (min_finalize xs) as H. destruct (exec min_step None xs) as [m|]; [|congruence].
    cbn. constructor; [|constructor]. apply (least_unique xs); [apply lmin_least | apply H].
  - pose proof (max_finalize xs) as H. destruct (exec max_step None xs) as [m|]; [|congruence].
    cbn. constructor; [|constructor]. apply (greatest_unique xs); [apply lmax_greatest | apply H].
  - pose proof (bounds_finalize xs) as H. destruct (bounds_fin _) as [[lo hi]|]; [|congruence].
    cbn. destruct H as (_ & Hl & Hg). constructor; [|constructor; [|constructor]].
    + apply (least_unique xs); [apply lmin_least | exact Hl].
    + apply (greatest_unique xs); [apply lmax_greatest | exact Hg].
  - rewrite last_finalize. cbn. apply qleq_refl.
  - pose proof (sum_inv xs) as H. destruct (exec sum_step None xs) as [v|]; [|congruence].
    cbn. constructor; [|constructor]. symmetry. apply H.
  - pose proof (mean_finalize xs) as H. destruct (mean_fin _) as [m|]; [|congruence].
    cbn. constructor; [|constructor]. symmetry. apply H.
  - pose proof (mv_finalize xs) as H. destruct (mv_fin _) as [[m v]|]; [|congruence].
    cbn. destruct H as (_ & Hm & H2 & H1). constructor; [|constructor; [|constructor]].
    + symmetry. exact Hm.
    + apply (varq_ok xs m v Hne Hm H2 H1).
  - rewrite statistics_agrees.
    pose proof (bounds_finalize xs) as Hb. destruct (bounds_fin _) as [[lo hi]|]; [|congruence].
    pose proof (mv_finalize xs) as H. destruct (mv_fin _) as [[m v]|]; [|congruence].
    cbn. destruct H as (_ & Hm & H2 & H1). destruct Hb as (_ & Hl & Hg).
    constructor; [|constructor; [|constructor; [|constructor; [|constructor]]]].
    + apply (least_unique xs); [apply lmin_least | exact Hl].
    + apply (greatest_unique xs); [apply lmax_greatest | exact Hg].
    + symmetry. exact Hm.
    + apply (varq_ok xs m v Hne Hm H2 H1).
  - rewrite collect_spec. cbn. apply qleq_refl.
Qed.

(* ---------- running outputs ---------- *)
Lemma run_ok k xs : tleq (map (spec_run k) (tl (prefixes xs))) (model_run k xs).
Proof.
  rewrite prefixes_prefs. unfold tleq.
  destruct k as [|[|[|[|[|[|[|[|[|k]]]]]]]]]; cbn [model_run];
    try (apply Forall2_map_r; apply run_prefix_F2; intros hist x;
         destruct (snoc_cons hist x) as (a & r & E)).
  - cbn [spec_run]. constructor; [|constructor]. rewrite E. apply (least_unique (a :: r)); [apply lmin_least|].
    rewrite <- E. apply min_running.
  - cbn [spec_run]. constructor; [|constructor]. rewrite E. apply (greatest_unique (a :: r)); [apply lmax_greatest|].
    rewrite <- E. apply max_running.
  - pose proof (bounds_running hist x) as H. destruct (last_out bounds_step (None, None) hist x) as [lo hi].
    cbn [spec_run fst snd]. destruct H as [Hl Hg]. rewrite E in *.
    constructor; [|constructor; [|constructor]].
    + apply (least_unique (a :: r)); [apply lmin_least | exact Hl].
    + apply (greatest_unique (a :: r)); [apply lmax_greatest | exact Hg].
  - (* last has no running output *)
    induction xs as [|x xs IH] using rev_ind; [constructor|].
    rewrite tl_prefs_snoc, !map_app. apply Forall2_app; [exact IH|]. constructor; [apply qleq_refl | constructor].
  - cbn [spec_run]. constructor; [|constructor]. symmetry. apply sum_running.
  - cbn [spec_run]. constructor; [|constructor]. symmetry. apply mean_running.
  - pose proof (mv_running hist x) as H. cbv zeta in H. destruct (last_out mv_step None hist x) as [m v].
    cbn [spec_run fst snd]. destruct H as [Hm Hv].
    constructor; [|constructor; [|constructor]]; [symmetry; exact Hm|].
    rewrite sqdevq_sqdev. rewrite Hv. apply sqdev_proper. symmetry. exact Hm.
  - pose proof (mv_running hist x) as H. cbv zeta in H.
    pose proof (bounds_running hist x) as Hb.
    unfold last_out in *. rewrite stat_exec. unfold stat_step. cbn [fst snd].
    destruct (bounds_step (exec bounds_step (None, None) hist) x) as [sb [lo hi]].
    destruct (mv_step (exec mv_step None hist) x) as [sm [m v]].
    cbn [spec_run fst snd] in *. destruct H as [Hm Hv]. destruct Hb as [Hl Hg]. rewrite E in *.
    constructor; [|constructor; [|constructor; [|constructor; [|constructor]]]].
    + apply (least_unique (a :: r)); [apply lmin_least | exact Hl].
    + apply (greatest_unique (a :: r)); [apply lmax_greatest | exact Hg].
    + symmetry. exact Hm.
    + rewrite sqdevq_sqdev. rewrite Hv. apply sqdev_proper. symmetry. exact Hm.
  - (* collect *)
    induction xs as [|x xs IH] using rev_ind; [constructor|].
    rewrite tl_prefs_snoc, run_snoc, !map_app. apply Forall2_app; [exact IH|].
    constructor; [|constructor]. cbn [spec_run map]. rewrite collect_spec. apply qleq_refl.
  - induction xs as [|x xs IH] using rev_ind; [constructor|].
    rewrite tl_prefs_snoc, !map_app. apply Forall2_app; [exact IH|]. constructor; [apply qleq_refl | constructor].
Qed.

(* ---------- kind 9: the long sum run ---------- *)
Lemma running_sums_run acc xs : map (fun m => [m]) (run sum_step (Some acc) xs) = running_sums acc xs.
Proof. revert acc; induction xs as [|x xs IH]; intros acc; [reflexivity|]. cbn [run running_sums map sum_step fst snd]. rewrite IH. reflexivity. Qed.
Lemma running_sums_run0 xs : map (fun m => [m]) (run sum_step None xs) = running_sums 0 xs.
Proof. destruct xs as [|x xs]; [reflexivity|]. cbn [run running_sums map sum_step fst snd]. rewrite running_sums_run. reflexivity. Qed.

(* Side conditions.
   (a) kinds above 9 are not sink kinds: model_fin falls through to `collect` (Some []) on the empty
       prefix while spec_fin says None, so a model-exact case raises a spec alarm.
   (b) (historical) kind 9 (long sum run) used to compare the single final finalize with Some [qsum xs] also on an
       EMPTY history, where model and implementation finalize to None: a false-alarm class of the checker found by
       this proof; Check/C11.v now expects None there and the side condition is gone. *)
Definition wf (c : case) : bool := (ckind c <=? 9)%nat.

Example C11_alarm_bad_kind : N.land (code (check (mk 10 [] [] [Some []] false))) 3 = 2%N.
Proof. vm_compute. reflexivity. Qed.
Example C11_long_empty_fixed : code (check (mk 9 [] [] [None] false)) = 0%N.
Proof. vm_compute. reflexivity. Qed.

Theorem C11_check_sound : forall c : case, wf c = true -> N.land (code (check c)) 3 <> 2%N.
Proof.
  intros c Hwf. unfold wf in Hwf. pose proof Hwf as Hk. apply Nat.leb_le in Hk.
  unfold check. destruct (ckind c =? 9)%nat eqn:E9.
  - (* long run *)
    unfold check_long. apply mkv_sound. intros H.
    apply andb_prop in H as [H Hfin]. apply andb_prop in H as [Hp Hrun].
    rewrite Hp. cbn [andb]. rewrite running_sums_run0 in Hrun. unfold tup_eqb in *. rewrite Hrun. cbn [andb].
    revert Hfin. apply transfer_otl. constructor; [|constructor].
    destruct (cxs c) as [|x r] eqn:Ex; [cbn; constructor|].
    pose proof (sum_inv (x :: r)) as Hs. destruct (exec sum_step None (x :: r)) as [v|]; [|discriminate].
    cbn. constructor; [|constructor]. symmetry. apply Hs.
  - apply Nat.eqb_neq in E9. unfold check_short. apply mkv_sound. intros H.
    apply andb_prop in H as [H Hfin]. apply andb_prop in H as [Hp Hrun].
    rewrite Hp. cbn [andb]. apply andb_true_intro. split.
    + revert Hfin. apply transfer_otl. apply Forall2_map_same. intros p _. apply fin_ok. lia.
    + revert Hrun. apply transfer_tl. apply run_ok.
Qed.
Print Assumptions C11_check_sound.
