(* C10, semantic layer: [items s n] = the first n items the run-time state s yields (stopping at
   the first end marker), [Good s] = fused (an end marker is followed by end markers only).
   General lemmas about both, for arbitrary states. *)
From Coq Require Import ZArith List Bool Lia Arith.
From Signalo Require Import Model.Sources Proofs.SourcesFuel.
Import ListNotations.

Fixpoint items (s : src) (n : nat) : list Z :=
  match n with
  | 0 => []
  | S n' => match next s with
            | (Some v, s') => v :: items s' n'
            | (None, _) => []
            end
  end.

Fixpoint nexts (k : nat) (s : src) : src :=
  match k with 0 => s | S k' => nexts k' (snd (next s)) end.
Definition str (s : src) (k : nat) : option Z := fst (next (nexts k s)).

Definition Good (s : src) : Prop := forall k, str s k = None -> str s (S k) = None.

Lemma nexts_S_r : forall k s, nexts (S k) s = snd (next (nexts k s)).
Proof. induction k; intros; simpl in *; auto. Qed.

Lemma Good_next : forall s, Good s -> Good (snd (next s)).
Proof. intros s H k. exact (H (S k)). Qed.
Lemma Good_nexts : forall k s, Good s -> Good (nexts k s).
Proof. induction k; simpl; auto using Good_next. Qed.
Lemma Good_none : forall s, Good s -> fst (next s) = None -> fst (next (snd (next s))) = None.
Proof. intros s H. exact (H 0). Qed.
Lemma Good_dead : forall s, Good s -> fst (next s) = None -> forall k, str s k = None.
Proof. intros s H H0 k. induction k; auto. Qed.

Lemma Good_coind (P : src -> Prop) :
  (forall s, P s -> P (snd (next s))) ->
  (forall s, P s -> fst (next s) = None -> fst (next (snd (next s))) = None) ->
  forall s, P s -> Good s.
Proof.
  intros Hc Hf s Hs k.
  assert (HP : forall k s, P s -> P (nexts k s)) by (induction k0; simpl; auto).
  unfold str. rewrite nexts_S_r. apply Hf, HP, Hs.
Qed.

(* destructing one step *)
Lemma items_S : forall s n, items s (S n) =
  match next s with (Some v, s') => v :: items s' n | (None, _) => [] end.
Proof. reflexivity. Qed.
Lemma items_none : forall s n, fst (next s) = None -> items s n = [].
Proof. intros s [|n] H; auto. rewrite items_S. destruct (next s) as [[v|] s']; simpl in *; congruence. Qed.
Lemma items_next_eq : forall s t n, next s = next t -> items s n = items t n.
Proof. intros s t [|n] H; auto. rewrite !items_S, H. reflexivity. Qed.

Lemma items_length : forall n s, length (items s n) <= n.
Proof.
  induction n; intros; simpl; auto.
  destruct (next s) as [[v|] s']; simpl; [specialize (IHn s')|]; lia.
Qed.

Lemma items_short : forall n s m, length (items s n) < n -> items s (n + m) = items s n.
Proof.
  induction n; intros s m H; simpl in *; [lia|].
  destruct (next s) as [[v|] s']; simpl in *; auto.
  f_equal. apply IHn. lia.
Qed.
Lemma items_short_le : forall n m s, length (items s n) < n -> n <= m -> items s m = items s n.
Proof. intros. replace m with (n + (m - n)) by lia. apply items_short; auto. Qed.

Lemma items_prefix : forall n s m, items s n = firstn n (items s (n + m)).
Proof.
  induction n; intros; simpl; auto.
  destruct (next s) as [[v|] s']; simpl; auto. f_equal; auto.
Qed.
Lemma items_prefix_le : forall n m s, n <= m -> items s n = firstn n (items s m).
Proof. intros. replace m with (n + (m - n)) by lia. apply items_prefix. Qed.

Lemma items_nth : forall n s j, Good s -> j < n -> nth_error (items s n) j = str s j.
Proof.
  induction n; intros s j HG Hj; [lia|].
  rewrite items_S. destruct (next s) as [[v|] s'] eqn:E.
  - destruct j; simpl.
    + unfold str; simpl. rewrite E. reflexivity.
    + rewrite IHn; try lia.
      * unfold str; simpl. rewrite E. reflexivity.
      * pose proof (Good_next s HG) as H. rewrite E in H. exact H.
  - rewrite Good_dead; auto; [destruct j; reflexivity | rewrite E; reflexivity].
Qed.

(* ---- list toolkit ---- *)
Lemma firstn_repeat : forall (v : Z) n c, firstn n (repeat v c) = repeat v (Nat.min n c).
Proof. induction n; destruct c; simpl; auto. f_equal; auto. Qed.

Lemma firstn_app_cut : forall (A B : list Z) n, firstn n (A ++ B) = firstn n (A ++ firstn n B).
Proof.
  intros. rewrite !firstn_app, firstn_firstn. do 2 f_equal. lia.
Qed.

Lemma firstn_app_long : forall (d X : list Z) n, n <= length d -> firstn n (d ++ X) = firstn n d.
Proof.
  intros. rewrite firstn_app. replace (n - length d) with 0 by lia. simpl. apply app_nil_r.
Qed.

Lemma last_cons_default : forall (d : list Z) v l, last (v :: d) l = last d v.
Proof.
  induction d; intros; auto.
  change (last (v :: a :: d) l) with (last (a :: d) l). rewrite !IHd. reflexivity.
Qed.

Lemma repeat_app_cons : forall (v : Z) c l, repeat v c ++ v :: l = v :: repeat v c ++ l.
Proof. induction c; simpl; intros; auto. f_equal; auto. Qed.

(* the tail after the inner stream: present only if the inner stream ended within n *)
Definition ext (T : list Z -> list Z) (d : list Z) (n : nat) : list Z :=
  d ++ (if length d <? n then T d else []).

Lemma ext_cons : forall T v d n,
  (forall d, T (v :: d) = T d) ->
  firstn (S n) (ext T (v :: d) (S n)) = v :: firstn n (ext T d n).
Proof. intros. unfold ext. simpl. rewrite H. reflexivity. Qed.

Lemma pad_step : forall T (A : list Z) i n,
  firstn n (A ++ ext T (items i (S n)) (S n)) = firstn n (A ++ ext T (items i n) n).
Proof.
  intros. unfold ext.
  pose proof (items_length n i) as Hl.
  destruct (Nat.ltb_spec (length (items i n)) n) as [Hlt|Hge].
  - replace (S n) with (n + 1) by lia. rewrite items_short by auto.
    destruct (Nat.ltb_spec (length (items i n)) (n + 1)); [reflexivity | lia].
  - rewrite (firstn_app_cut A (items i (S n) ++ _)).
    assert (Hp : items i n = firstn n (items i (S n))) by (apply items_prefix_le; lia).
    rewrite (firstn_app_long (items i (S n))).
    + rewrite <- Hp, app_nil_r. reflexivity.
    + rewrite Hp in Hge. rewrite firstn_length in Hge. lia.
Qed.

(* ---- cyclic repetition ---- *)
Definition rot (D : list Z) (m : nat) : list Z := firstn m (concat (repeat D m)).

Lemma concat_repeat_snoc : forall (D : list Z) k, concat (repeat D (S k)) = concat (repeat D k) ++ D.
Proof.
  induction k; simpl in *; [rewrite app_nil_r; auto|].
  rewrite IHk at 1. rewrite app_assoc. reflexivity.
Qed.
Lemma concat_repeat_length : forall (D : list Z) k, length (concat (repeat D k)) = k * length D.
Proof. induction k; simpl; auto. rewrite app_length, IHk. reflexivity. Qed.

Lemma rot_more : forall (D : list Z) m k, 1 <= length D -> m <= k ->
  firstn m (concat (repeat D k)) = rot D m.
Proof.
  intros D m k HD Hk. unfold rot. induction Hk; auto.
  rewrite concat_repeat_snoc, firstn_app_long; auto.
  rewrite concat_repeat_length. nia.
Qed.
Lemma rot_nil : forall m, rot [] m = [].
Proof.
  intros. unfold rot. assert (H : forall k, concat (repeat (@nil Z) k) = []) by (induction k; auto).
  rewrite H. apply firstn_nil.
Qed.
Lemma rot_small : forall (D : list Z) m, m <= length D -> rot D m = firstn m D.
Proof.
  intros. unfold rot. destruct m; auto.
  change (repeat D (S m)) with (D :: repeat D m). cbn [concat].
  apply firstn_app_long; auto.
Qed.
Lemma rot_unroll : forall (D : list Z) m, 1 <= length D -> length D < m ->
  rot D m = D ++ rot D (m - length D).
Proof.
  intros D m H1 H2. unfold rot at 1. destruct m; [lia|].
  change (repeat D (S m)) with (D :: repeat D m). cbn [concat].
  rewrite firstn_app, firstn_all2 by lia. f_equal.
  apply rot_more; auto. lia.
Qed.
