(* C05 — no false alarm: whenever the recorded convolution / delay outputs (and reported coefficients)
   agree with the model (bit 1 clear), the boolean edge-padded-FIR spec of Check/C05 accepts them. *)
From Coq Require Import NArith Morphisms.
From Signalo Require Import Check.Common Model.Convolve Spec.C05 Base.Lincomb Proofs.Convolve Check.C05 Proofs.Sound_LibB.

(* the model never panics and its n-th output is the FIR sum *)
Lemma conv_model coeffs xs : exists ys,
  run_model (conv_step (length coeffs) coeffs) [] xs = (ys, false) /\ length ys = length xs /\
  forall k, (k < length xs)%nat -> qnth k ys == fir coeffs xs k.
Proof.
  destruct xs as [|x0 hist].
  - exists []. split; [reflexivity|]. split; [reflexivity|]. intros k Hk. cbn in Hk. lia.
  - destruct (conv_fir coeffs x0 hist) as (ys & Ho & L & F). exists ys.
    split; [apply orun_partial_of_orun, Ho|]. split; [exact L | exact F].
Qed.
Lemma delay_model n xs : exists ys,
  run_model (delay_step n) [] xs = (ys, false) /\ length ys = length xs /\
  forall k, (k < length xs)%nat -> qnth k ys = qnth (k - n) xs.
Proof.
  destruct xs as [|x0 hist].
  - exists []. split; [reflexivity|]. split; [reflexivity|]. intros k Hk. cbn in Hk. lia.
  - destruct (delay_shift Q n x0 hist) as (ys & Ho & L & F). exists ys.
    split; [apply orun_partial_of_orun, Ho|]. split; [exact L|].
    intros k Hk. unfold qnth. rewrite (nth_indep ys 0 x0) by lia.
    rewrite (nth_indep (x0 :: hist) 0 x0) by lia. apply F, Hk.
Qed.

(* the FIR sum respects pointwise Qeq of the coefficients *)
Lemma fir_qleq c c' sig n : qleq c c' -> fir c sig n == fir c' sig n.
Proof.
  intros H. unfold fir. rewrite <- (qleq_length _ _ H). apply qsum_map_ext. intros j Hj.
  apply in_seq in Hj. rewrite (qleq_qnth _ _ j H : nth j c 0 == nth j c' 0). reflexivity.
Qed.
(* the spec's normalisation (plain rational operations) is the model's (normalising wrappers) *)
Lemma spec_norm_normalized c : qleq (spec_norm c) (normalized c).
Proof.
  unfold spec_norm, normalized, qeqb. pose proof (coeff_sum_ok c) as E.
  destruct (Qeq_bool (qsum c) 0) eqn:B1; destruct (Qeq_bool (coeff_sum c) 0) eqn:B2.
  - apply qleq_refl.
  - apply Qeq_bool_iff in B1. rewrite <- E in B1. apply Qeq_bool_iff in B1. congruence.
  - apply Qeq_bool_iff in B2. rewrite E in B2. apply Qeq_bool_iff in B2. congruence.
  - apply Forall2_map_same. intros x _. rewrite rdiv_ok, E. reflexivity.
Qed.

Lemma conv_case coeffs scoeffs (c : case) nt : qleq scoeffs coeffs ->
  N.land (code (let '(ys, p) := run_model (conv_step (length coeffs) coeffs) [] (cxs c) in
    mkv (Bool.eqb p (cpanic c) && qlist_eqb ys (cys c) && qlist_eqb coeffs (ccfg c))
        (negb (cpanic c) && (length (cxs c) =? length (cys c))%nat && qlist_eqb scoeffs (ccfg c) &&
         forallb (fun n => qeqb (qnth n (cys c)) (fir scoeffs (cxs c) n)) (seq 0 (length (cxs c)))) nt)) 3 <> 2%N.
Proof.
  intros Hsc. destruct (conv_model coeffs (cxs c)) as (ys & E & L & F). rewrite E.
  apply mkv_sound. intros H.
  apply andb_prop in H as [H Hcfg]. apply andb_prop in H as [Hp Hys]. apply Bool.eqb_prop in Hp.
  assert (Qy : qleq ys (cys c)) by (apply qlist_eqb_iff; exact Hys).
  rewrite <- Hp. cbn [negb andb]. rewrite <- (qleq_length _ _ Qy), L, Nat.eqb_refl.
  rewrite (transfer_q _ _ _ Hsc Hcfg). cbn [andb].
  apply forallb_forall. intros n Hn. apply in_seq in Hn. apply qeqb_iff.
  rewrite <- (qleq_qnth _ _ n Qy), F by lia. symmetry. apply fir_qleq, Hsc.
Qed.

(* Side condition.  Kind 3 (Savitzky-Golay preset) has no model output at all: the check is a direct test of the
   coefficient table the compiled code holds against the exact least-squares coefficients, so its verdict is
   2 exactly when that table is out of tolerance ("agrees with the model" is vacuous there). *)
Definition wf (c : case) : bool := negb (ckind c =? 3)%nat || sg_table_ok (cn c) (ccfg c).

Example C05_alarm_sg_table : N.land (code (check (mk 3 2 [] [0; 0] [] [] false))) 3 = 2%N.
Proof. vm_compute. reflexivity. Qed.

Theorem C05_check_sound : forall c : case, wf c = true -> N.land (code (check c)) 3 <> 2%N.
Proof.
  intros c Hwf. unfold wf in Hwf. unfold check.
  destruct (ckind c) as [|[|[|[|[|k]]]]]; cbv beta iota.
  - (* with_config *) apply conv_case, qleq_refl.
  - (* normalized *) apply conv_case, spec_norm_normalized.
  - (* delay *)
    destruct (delay_model (cn c) (cxs c)) as (ys & E & L & F). rewrite E.
    apply mkv_sound. intros H. apply andb_prop in H as [Hp Hys]. apply Bool.eqb_prop in Hp.
    assert (Qy : qleq ys (cys c)) by (apply qlist_eqb_iff; exact Hys).
    rewrite <- Hp. cbn [negb andb]. rewrite <- (qleq_length _ _ Qy), L, Nat.eqb_refl. cbn [andb].
    apply forallb_forall. intros n Hn. apply in_seq in Hn. apply qeqb_iff.
    rewrite <- (qleq_qnth _ _ n Qy), F by lia. reflexivity.
  - (* preset table *)
    cbn [Nat.eqb negb orb] in Hwf. rewrite Hwf. cbn. discriminate.
  - (* integer normalized *)
    set (coeffs := if qeqb (qsum (ccoeffs c)) 0 then ccoeffs c
                   else map (fun x => inject_Z (Z.quot (Qnum (Qred x)) (Qnum (Qred (qsum (ccoeffs c)))))) (ccoeffs c)).
    destruct (conv_model coeffs (cxs c)) as (ys & E & L & F). rewrite E.
    apply mkv_sound. intros H.
    apply andb_prop in H as [H Hcfg]. apply andb_prop in H as [Hp Hys]. apply Bool.eqb_prop in Hp.
    assert (Qy : qleq ys (cys c)) by (apply qlist_eqb_iff; exact Hys).
    rewrite <- Hp, Hcfg. cbn [negb andb].
    apply forallb_forall. intros n Hn. apply in_seq in Hn. apply qeqb_iff.
    rewrite <- (qleq_qnth _ _ n Qy), F by lia. reflexivity.
  - (* any other kind is treated like normalized *) apply conv_case, spec_norm_normalized.
Qed.
Print Assumptions C05_check_sound.
