(* Shared reflection lemmas for the "no false alarm" theorems Sound_C05/C06/C07/C11/C16:
   the boolean list comparisons of the Check files reflect pointwise Qeq, which is an equivalence,
   and the verdict arithmetic of Base/Report. *)
From Coq Require Import NArith Morphisms.
From Signalo Require Import Check.Common.

(* ---------- verdict arithmetic ---------- *)
Lemma mkv_sound m s nt : (m = true -> s = true) -> N.land (code (mkv m s nt)) 3 <> 2%N.
Proof. intros H. destruct m, s; cbn; try discriminate. specialize (H eq_refl). discriminate. Qed.
Lemma mkv_known_sound m s k nt : (m = true -> s = true) -> N.land (code (mkv_known m s k nt)) 3 <> 2%N.
Proof. intros H. destruct m, s, k; cbn; try discriminate; specialize (H eq_refl); discriminate. Qed.
Lemma mkv_st_sound m s st nt : (m = true -> s = true) -> N.land (code (mkv_st m s st nt)) 3 <> 2%N.
Proof. intros H. destruct m, s, st; cbn; try discriminate; specialize (H eq_refl); discriminate. Qed.

(* ---------- pointwise Qeq ---------- *)
Definition qleq : list Q -> list Q -> Prop := Forall2 Qeq.
Definition oeq {A} (R : A -> A -> Prop) (a b : option A) : Prop :=
  match a, b with Some x, Some y => R x y | None, None => True | _, _ => False end.

Lemma qeqb_iff x y : qeqb x y = true <-> x == y.
Proof. apply Qeq_bool_iff. Qed.
Lemma qeqb_refl x : qeqb x x = true.
Proof. apply qeqb_iff. reflexivity. Qed.

Section F2.
Context {A : Type} (R : A -> A -> Prop).
Lemma Forall2_refl' : (forall x, R x x) -> forall l, Forall2 R l l.
Proof. intros H l. induction l; constructor; auto. Qed.
Lemma Forall2_sym' : (forall x y, R x y -> R y x) -> forall a b, Forall2 R a b -> Forall2 R b a.
Proof. intros H a b F. induction F; constructor; auto. Qed.
Lemma Forall2_trans' : (forall x y z, R x y -> R y z -> R x z) ->
  forall a b c, Forall2 R a b -> Forall2 R b c -> Forall2 R a c.
Proof.
  intros H a b c F. revert c. induction F; intros c G; inversion G; subst; constructor; eauto.
Qed.
Lemma oeq_refl : (forall x, R x x) -> forall o, oeq R o o.
Proof. intros H [x|]; simpl; auto. Qed.
Lemma oeq_sym : (forall x y, R x y -> R y x) -> forall a b, oeq R a b -> oeq R b a.
Proof. intros H [x|] [y|]; simpl; auto. Qed.
Lemma oeq_trans : (forall x y z, R x y -> R y z -> R x z) -> forall a b c, oeq R a b -> oeq R b c -> oeq R a c.
Proof. intros H [x|] [y|] [z|]; simpl; eauto; tauto. Qed.
End F2.

Lemma Forall2_length' {A B} (R : A -> B -> Prop) a b : Forall2 R a b -> length a = length b.
Proof. intros F; induction F; simpl; congruence. Qed.
Lemma Forall2_nth' {A B} (R : A -> B -> Prop) a b da db n :
  Forall2 R a b -> (n < length a)%nat -> R (nth n a da) (nth n b db).
Proof.
  intros F; revert n; induction F; intros n Hn; simpl in Hn; [lia|].
  destruct n; simpl; [assumption | apply IHF; lia].
Qed.
Lemma Forall2_map' {A B C D} (R : C -> D -> Prop) (f : A -> C) (g : B -> D) a b :
  Forall2 (fun x y => R (f x) (g y)) a b -> Forall2 R (map f a) (map g b).
Proof. intros F; induction F; simpl; constructor; auto. Qed.
Lemma Forall2_map_same {A C} (R : C -> C -> Prop) (f g : A -> C) l :
  (forall x, In x l -> R (f x) (g x)) -> Forall2 R (map f l) (map g l).
Proof. induction l; intros H; simpl; constructor; [apply H; left; reflexivity | apply IHl; intros; apply H; right; assumption]. Qed.
Lemma Forall2_of_nth {A B} (R : A -> B -> Prop) a b da db :
  length a = length b -> (forall n, (n < length a)%nat -> R (nth n a da) (nth n b db)) -> Forall2 R a b.
Proof.
  revert b; induction a as [|x a IH]; intros [|y b] L H; try discriminate; constructor.
  - apply (H 0%nat). simpl; lia.
  - apply IH; [simpl in L; lia|]. intros n Hn. apply (H (S n)). simpl; lia.
Qed.

Lemma qleq_refl l : qleq l l.
Proof. apply Forall2_refl'. intros; reflexivity. Qed.
Lemma qleq_sym a b : qleq a b -> qleq b a.
Proof. apply Forall2_sym'. intros; symmetry; assumption. Qed.
Lemma qleq_trans a b c : qleq a b -> qleq b c -> qleq a c.
Proof. apply Forall2_trans'. intros x y z H1 H2; rewrite H1; exact H2. Qed.
Global Instance qleq_equiv : Equivalence qleq.
Proof. split; [exact qleq_refl | exact qleq_sym | exact qleq_trans]. Qed.

(* ---------- the boolean comparisons reflect the relations ---------- *)
Lemma list_eqb_iff {A} (e : A -> A -> bool) (R : A -> A -> Prop) :
  (forall x y, e x y = true <-> R x y) -> forall a b, list_eqb e a b = true <-> Forall2 R a b.
Proof.
  intros H a. induction a as [|x a IH]; intros [|y b]; simpl; split; intros G;
    try discriminate; try constructor; try (inversion G; fail).
  - apply andb_prop in G as [G1 G2]. apply H, G1.
  - apply andb_prop in G as [G1 G2]. apply IH, G2.
  - inversion G; subst. apply andb_true_intro. split; [apply H; assumption | apply IH; assumption].
Qed.
Lemma opt_eqb_iff {A} (e : A -> A -> bool) (R : A -> A -> Prop) :
  (forall x y, e x y = true <-> R x y) -> forall a b, opt_eqb e a b = true <-> oeq R a b.
Proof. intros H [x|] [y|]; simpl; try apply H; split; intros; try discriminate; try tauto. Qed.
Lemma qlist_eqb_iff a b : qlist_eqb a b = true <-> qleq a b.
Proof.
  revert b. induction a as [|x a IH]; intros [|y b]; simpl; split; intros G;
    try discriminate; try constructor; try (inversion G; fail).
  - apply andb_prop in G as [G1 G2]. apply qeqb_iff, G1.
  - apply andb_prop in G as [G1 G2]. apply IH, G2.
  - inversion G; subst. apply andb_true_intro. split; [apply qeqb_iff; assumption | apply IH; assumption].
Qed.
Lemma oqeqb_iff a b : oqeqb a b = true <-> oeq Qeq a b.
Proof. destruct a, b; simpl; try apply qeqb_iff; split; intros; try discriminate; tauto. Qed.

(* lists of tuples, lists of optional tuples *)
Definition tleq : list (list Q) -> list (list Q) -> Prop := Forall2 qleq.
Definition otleq : list (option (list Q)) -> list (option (list Q)) -> Prop := Forall2 (oeq qleq).
Lemma tl_eqb_iff a b : list_eqb qlist_eqb a b = true <-> tleq a b.
Proof. apply list_eqb_iff, qlist_eqb_iff. Qed.
Lemma otl_eqb_iff a b : list_eqb (opt_eqb qlist_eqb) a b = true <-> otleq a b.
Proof. apply list_eqb_iff, opt_eqb_iff, qlist_eqb_iff. Qed.
Global Instance tleq_equiv : Equivalence tleq.
Proof.
  split; [intros l; apply Forall2_refl', qleq_refl | intros a b; apply Forall2_sym', qleq_sym
         | intros a b c; apply Forall2_trans', qleq_trans].
Qed.
Global Instance otleq_equiv : Equivalence otleq.
Proof.
  split.
  - intros l; apply Forall2_refl', oeq_refl, qleq_refl.
  - intros a b; apply Forall2_sym', oeq_sym, qleq_sym.
  - intros a b c; apply Forall2_trans', oeq_trans, qleq_trans.
Qed.

(* the generic transfer: the recorded outputs equal the model's, the model's equal the spec's *)
Lemma transfer_q m s r : qleq s m -> qlist_eqb m r = true -> qlist_eqb s r = true.
Proof. intros H1 H2. apply qlist_eqb_iff. apply qlist_eqb_iff in H2. etransitivity; eassumption. Qed.
Lemma transfer_tl m s r : tleq s m -> list_eqb qlist_eqb m r = true -> list_eqb qlist_eqb s r = true.
Proof. intros H1 H2. apply tl_eqb_iff. apply tl_eqb_iff in H2. etransitivity; eassumption. Qed.
Lemma transfer_otl m s r : otleq s m -> list_eqb (opt_eqb qlist_eqb) m r = true -> list_eqb (opt_eqb qlist_eqb) s r = true.
Proof. intros H1 H2. apply otl_eqb_iff. apply otl_eqb_iff in H2. etransitivity; eassumption. Qed.

(* qnth respects pointwise Qeq *)
Lemma qleq_qnth a b n : qleq a b -> qnth n a == qnth n b.
Proof.
  intros F. unfold qnth. revert n. induction F; intros n; [reflexivity|].
  destruct n; simpl; auto.
Qed.
Lemma qleq_length a b : qleq a b -> length a = length b.
Proof. apply Forall2_length'. Qed.
Lemma qleq_qsum a b : qleq a b -> qsum a == qsum b.
Proof. intros F; induction F; simpl; [reflexivity|]. rewrite H, IHF. reflexivity. Qed.
Lemma qleq_app a b c d : qleq a b -> qleq c d -> qleq (a ++ c) (b ++ d).
Proof. apply Forall2_app. Qed.
Lemma qleq_firstn n a b : qleq a b -> qleq (firstn n a) (firstn n b).
Proof. intros F; revert n; induction F; intros [|n]; simpl; try constructor; try assumption. apply IHF. Qed.
Lemma qleq_skipn n a b : qleq a b -> qleq (skipn n a) (skipn n b).
Proof. intros F; revert n; induction F; intros [|n]; simpl; try (constructor; assumption). apply IHF. Qed.
Lemma qleq_rev a b : qleq a b -> qleq (rev a) (rev b).
Proof. intros F; induction F; simpl; [constructor|]. apply qleq_app; [assumption|]. constructor; [assumption|constructor]. Qed.

(* ---------- prefixes and running outputs ---------- *)
Definition prefs {X} (xs : list X) : list (list X) := map (fun n => firstn n xs) (seq 0 (S (length xs))).
Lemma prefs_snoc {X} (xs : list X) x : prefs (xs ++ [x]) = prefs xs ++ [xs ++ [x]].
Proof.
  unfold prefs. rewrite app_length. cbn [length]. rewrite Nat.add_1_r.
  rewrite (seq_S (S (length xs))), map_app. cbn [map Nat.add].
  rewrite (firstn_all2 (n := S (length xs))) by (rewrite app_length; simpl; lia).
  f_equal. apply map_ext_in. intros n Hn. apply in_seq in Hn. rewrite firstn_app.
  replace (n - length xs)%nat with 0%nat by lia. simpl. apply app_nil_r.
Qed.
Lemma prefs_cons {X} (xs : list X) : prefs xs = [] :: tl (prefs xs).
Proof. unfold prefs. cbn [seq map firstn tl]. reflexivity. Qed.
Lemma tl_prefs_snoc {X} (xs : list X) x : tl (prefs (xs ++ [x])) = tl (prefs xs) ++ [xs ++ [x]].
Proof. rewrite prefs_snoc, (prefs_cons xs). reflexivity. Qed.
Lemma in_prefs_tl {X} (xs p : list X) : In p (tl (prefs xs)) -> p <> [].
Proof.
  unfold prefs. cbn [seq map tl]. intros H. apply in_map_iff in H as (n & <- & Hn). apply in_seq in Hn.
  destruct xs; [simpl in Hn; lia|]. destruct n; [lia|]. discriminate.
Qed.

Section RunP.
Context {S X Y : Type}.
Variable step : S -> X -> S * Y.
Lemma run_prefix_F2 {T} (P : T -> Y -> Prop) (f : list X -> T) s xs :
  (forall hist x, P (f (hist ++ [x])) (last_out step s hist x)) ->
  Forall2 P (map f (tl (prefs xs))) (run step s xs).
Proof.
  intros H. induction xs as [|x xs IH] using rev_ind; [constructor|].
  rewrite run_snoc, tl_prefs_snoc, map_app. apply Forall2_app; [exact IH|].
  constructor; [apply H|constructor].
Qed.
End RunP.

(* ---------- extremal elements, hulls ---------- *)
Lemma list_min_exists (x : Q) (r : list Q) : exists m, In m (x :: r) /\ forall v, In v (x :: r) -> m <= v.
Proof.
  revert x; induction r as [|a r IH]; intros x.
  - exists x. split; [left; reflexivity|]. intros v [<-|[]]. apply Qle_refl.
  - destruct (IH a) as (m & Hin & Hall). destruct (Qlt_le_dec x m) as [L|L].
    + exists x. split; [left; reflexivity|]. intros v [<-|Hv]; [apply Qle_refl|].
      apply Qle_trans with m; [apply Qlt_le_weak, L | apply Hall, Hv].
    + exists m. split; [right; exact Hin|]. intros v [<-|Hv]; [exact L | apply Hall, Hv].
Qed.
Lemma list_max_exists (x : Q) (r : list Q) : exists m, In m (x :: r) /\ forall v, In v (x :: r) -> v <= m.
Proof.
  revert x; induction r as [|a r IH]; intros x.
  - exists x. split; [left; reflexivity|]. intros v [<-|[]]. apply Qle_refl.
  - destruct (IH a) as (m & Hin & Hall). destruct (Qlt_le_dec m x) as [L|L].
    + exists x. split; [left; reflexivity|]. intros v [<-|Hv]; [apply Qle_refl|].
      apply Qle_trans with m; [apply Hall, Hv | apply Qlt_le_weak, L].
    + exists m. split; [right; exact Hin|]. intros v [<-|Hv]; [exact L | apply Hall, Hv].
Qed.
Lemma qleb_iff x y : qleb x y = true <-> x <= y.
Proof. apply Qle_bool_iff. Qed.
Lemma qltb_iff x y : qltb x y = true <-> x < y.
Proof.
  unfold qltb. rewrite Bool.negb_true_iff. split; intros H.
  - apply Qnot_le_lt. intros C. apply Qle_bool_iff in C. congruence.
  - destruct (Qle_bool y x) eqn:E; [|reflexivity]. apply Qle_bool_iff in E. exfalso. apply (Qlt_not_le _ _ H E).
Qed.
Lemma forallb_qleq (f : Q -> bool) a b :
  (forall x y, x == y -> f x = true -> f y = true) -> qleq a b -> forallb f a = true -> forallb f b = true.
Proof.
  intros Hf F. induction F; simpl; [auto|]. intros G. apply andb_prop in G as [G1 G2].
  apply andb_true_intro. split; [eapply Hf; eassumption | apply IHF, G2].
Qed.
Lemma In_firstn {A} n (l : list A) v : In v (firstn n l) -> In v l.
Proof. revert l; induction n; intros [|a l] H; simpl in *; try tauto. destruct H; [left; assumption | right; auto]. Qed.
Lemma all_eq_forall xs : all_eq xs = true -> forall v, In v xs -> v == qnth 0 xs.
Proof.
  destruct xs as [|x r]; [intros _ v []|]. cbn [all_eq]. intros H v [<-|Hv]; [reflexivity|].
  rewrite forallb_forall in H. specialize (H v Hv). apply qeqb_iff in H. symmetry. exact H.
Qed.
Lemma nth_firstn' {A} n (l : list A) i d : (i < n)%nat -> nth i (firstn n l) d = nth i l d.
Proof.
  revert l i; induction n as [|n IH]; intros l i H; [lia|].
  destruct l as [|a l]; [destruct i; reflexivity|]. destruct i; [reflexivity|]. cbn [firstn nth]. apply IH. lia.
Qed.
Lemma Forall2_Forall_transfer {A B} (R : A -> B -> Prop) (P : A -> Prop) (P' : B -> Prop) a b :
  (forall x y, R x y -> P x -> P' y) -> Forall2 R a b -> Forall P a -> Forall P' b.
Proof.
  intros H F. induction F; intros G; [constructor|]. inversion G; subst. constructor; eauto.
Qed.

(* ---------- pairs up to Qeq ---------- *)
Definition peq (a b : Q * Q) : Prop := fst a == fst b /\ snd a == snd b.
Definition pleq : list (Q * Q) -> list (Q * Q) -> Prop := Forall2 peq.
Lemma pleq_fst a b : pleq a b -> qleq (map fst a) (map fst b).
Proof. intros F; induction F; simpl; constructor; [apply H | assumption]. Qed.
Lemma pleq_snd a b : pleq a b -> qleq (map snd a) (map snd b).
Proof. intros F; induction F; simpl; constructor; [apply H | assumption]. Qed.
Lemma pleq_snd_rel (a b : list (Q * Q)) : Forall2 (fun x y => snd x == snd y) a b -> qleq (map snd a) (map snd b).
Proof. intros F; induction F; simpl; constructor; assumption. Qed.
Lemma pleq_of_maps a b : qleq (map fst a) (map fst b) -> qleq (map snd a) (map snd b) -> pleq a b.
Proof.
  revert b; induction a as [|x a IH]; intros [|y b] H1 H2; simpl in *; try (inversion H1; fail); [constructor|].
  inversion H1; inversion H2; subst. constructor; [split; assumption | apply IH; assumption].
Qed.
Lemma pleq_nth_snd a b k : pleq a b -> snd (nth k a (0, 0)) == snd (nth k b (0, 0)).
Proof.
  intros F. revert k; induction F; intros k; [destruct k; reflexivity|]. destruct k; simpl; [apply H | apply IHF].
Qed.


(* ---------- panic-free runs ---------- *)
Lemma orun_partial_of_orun {S X Y} (step : S -> X -> option (S * Y)) xs : forall s ys,
  orun step s xs = Some ys -> orun_partial step s xs = (ys, false).
Proof.
  induction xs as [|x xs IH]; intros s ys H; cbn [orun orun_partial] in *.
  - injection H as <-. reflexivity.
  - destruct (step s x) as [[s' y]|]; [|discriminate].
    destruct (orun step s' xs) as [yr|] eqn:E; [|discriminate]. injection H as <-.
    rewrite (IH s' yr E). reflexivity.
Qed.
