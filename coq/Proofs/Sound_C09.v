(* C09 — no false alarm: whenever the recorded class indices agree with the slope / peak model
   (bit 1 clear), the observation-level statement `spec_list` of Check/C09 accepts them (bit 2 clear).
   In fact the model's output list IS the spec list, for every kind, every input (NaN included) and
   every length, so no side condition is needed. *)
From Coq Require Import NArith ZArith List Bool Lia.
From Signalo Require Import Check.Common Model.Classify Proofs.Classify Check.C09 Proofs.Sound_LibB.
Import ListNotations.

Lemma nat_list_eqb_eq a b : list_eqb Nat.eqb a b = true -> a = b.
Proof.
  revert b; induction a as [|x a IH]; intros [|y b] H; simpl in H; try discriminate; [reflexivity|].
  apply andb_prop in H as [H1 H2]. apply Nat.eqb_eq in H1. rewrite H1, (IH b H2). reflexivity.
Qed.

(* ---------- the comparison of optional integers ---------- *)
Lemma sidx_slope_of a b : sidx (slope_of ocmp (Some a) b) = slope_idx a b.
Proof.
  unfold slope_of, slope_idx, ocmp, olt. destruct a as [x|], b as [y|]; try reflexivity.
  rewrite (Z.ltb_compare x y), (Z.ltb_compare y x), (Z.compare_antisym x y).
  destruct (x ?= y)%Z; reflexivity.
Qed.

(* ---------- kind 0: slopes ---------- *)
Lemma slopes_run_some a xs :
  map sidx (run (slopes_step ocmp) (Some a) xs) = map2 slope_idx (a :: xs) xs.
Proof.
  revert a; induction xs as [|x xs IH]; intros a; [reflexivity|].
  cbn [run slopes_step fst snd map map2]. rewrite IH, sidx_slope_of. reflexivity.
Qed.
Lemma slopes_ok xs :
  map sidx (run (slopes_step ocmp) None xs) = match xs with [] => [] | _ => 1%nat :: map2 slope_idx xs (tl xs) end.
Proof.
  destruct xs as [|x xs]; [reflexivity|].
  cbn [run slopes_step fst snd map tl slope_of sidx]. rewrite slopes_run_some. reflexivity.
Qed.

(* ---------- kind 1: peaks on samples ---------- *)
Definition pk3 (a b d : option Z) : nat :=
  if olt a b && olt d b then 0%nat else if olt b a && olt b d then 2%nat else 1%nat.
Lemma pidx_peak_of a b d :
  pidx (peak_of (Some (slope_of ocmp (Some a) b)) (slope_of ocmp (Some b) d)) = pk3 a b d.
Proof.
  unfold slope_of, pk3, ocmp, olt. destruct a as [x|], b as [y|], d as [z|]; try reflexivity;
  rewrite ?(Z.ltb_compare x y), ?(Z.ltb_compare y x), ?(Z.ltb_compare y z), ?(Z.ltb_compare z y),
          ?(Z.compare_antisym x y), ?(Z.compare_antisym y z);
  try (destruct (x ?= y)%Z; reflexivity); try (destruct (y ?= z)%Z; reflexivity).
  destruct (x ?= y)%Z, (y ?= z)%Z; reflexivity.
Qed.
Lemma peaks_run_some a b xs :
  map pidx (run (peaks_step ocmp) (Some b, Some (slope_of ocmp (Some a) b)) xs)
  = map3 pk3 (a :: b :: xs) (b :: xs) xs.
Proof.
  revert a b; induction xs as [|x xs IH]; intros a b; [reflexivity|].
  cbn [run peaks_step slopes_step fst snd map map3]. rewrite IH, pidx_peak_of. reflexivity.
Qed.
Lemma map3_length {A B} (f : A -> A -> A -> B) a b xs :
  length (map3 f (a :: b :: xs) (b :: xs) xs) = length xs.
Proof.
  revert a b; induction xs as [|x xs IH]; intros a b; [reflexivity|].
  change (S (length (map3 f (b :: x :: xs) (x :: xs) xs)) = S (length xs)). rewrite IH. reflexivity.
Qed.
Lemma peaks_ok xs :
  map pidx (run (peaks_step ocmp) (None, None) xs)
  = firstn (length xs) ([1; 1]%nat ++ map3 pk3 xs (tl xs) (tl (tl xs))).
Proof.
  destruct xs as [|a [|b xs]]; [reflexivity|reflexivity|].
  cbn [run peaks_step slopes_step fst snd map tl length app firstn].
  change (slope_of ocmp None a) with Flat. cbn [peak_of pidx].
  rewrite peaks_run_some. f_equal. f_equal.
  symmetry. apply firstn_all2. rewrite map3_length. lia.
Qed.

(* ---------- kind 2: peaks on a slope sequence ---------- *)
Definition pk2 (a b : option Z) : nat :=
  match to_slope a, to_slope b with Rising, Falling => 0%nat | Falling, Rising => 2%nat | _, _ => 1%nat end.
Lemma peaks_slope_run_some a xs :
  map pidx (run peaks_slope_step (Some (to_slope a)) (map to_slope xs)) = map2 pk2 (a :: xs) xs.
Proof.
  revert a; induction xs as [|x xs IH]; intros a; [reflexivity|].
  cbn [run peaks_slope_step fst snd map map2]. rewrite IH. f_equal.
  unfold pk2. destruct (to_slope a), (to_slope x); reflexivity.
Qed.
Lemma peaks_slope_ok xs :
  map pidx (run peaks_slope_step None (map to_slope xs))
  = match xs with [] => [] | _ => 1%nat :: map2 pk2 xs (tl xs) end.
Proof.
  destruct xs as [|x xs]; [reflexivity|].
  cbn [run peaks_slope_step fst snd map tl peak_of pidx]. rewrite peaks_slope_run_some. reflexivity.
Qed.

(* ---------- the model's outputs are the spec's expected outputs ---------- *)
Theorem C09_model_is_spec : forall c : case, model c = spec_list c.
Proof.
  intros c. unfold model, spec_list. destruct (ckind c) as [|[|k]].
  - apply slopes_ok.
  - apply peaks_ok.
  - apply peaks_slope_ok.
Qed.

Theorem C09_check_sound : forall c : case, N.land (code (check c)) 3 <> 2%N.
Proof.
  intros c. unfold check. apply mkv_sound. intros H.
  apply andb_prop in H as [Hp Hm]. rewrite Hp. cbn [andb].
  rewrite <- C09_model_is_spec. exact Hm.
Qed.
Print Assumptions C09_check_sound.
