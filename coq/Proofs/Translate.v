(* Small facts used by the obligations that translator/bodies.py generates from the Rust sources. *)
From Coq Require Import NArith Lia.
From Signalo Require Import Model.Bounds.
Local Open Scope N_scope.

(* `time += 1` under the guard `time < usize::MAX` cannot overflow: the checked addition the translator emits for every
   usize `+` is the plain sum the model writes in that branch *)
Lemma cadd_lt maxu a : (a <? maxu) = true -> cadd maxu a 1 = Some (a + 1).
Proof. unfold cadd. intros H. apply N.ltb_lt in H. destruct (N.leb_spec (a + 1) maxu); [reflexivity | lia]. Qed.
