(* Small facts used by the obligations that translator/bodies.py generates from the Rust sources. *)
From Coq Require Import NArith Lia.
From Signalo Require Import Model.Bounds.
Local Open Scope N_scope.

(* `time += 1` under the guard `time < usize::MAX` cannot overflow: the checked addition the translator emits for every
   usize `+` is the plain sum the model writes in that branch *)
Lemma cadd_lt maxu a : (a <? maxu) = true -> cadd maxu a 1 = Some (a + 1).
Proof. unfold cadd. intros H. apply N.ltb_lt in H. destruct (N.leb_spec (a + 1) maxu); [reflexivity | lia]. Qed.

(* Skip::source: the `while count > 0 && inner.source().is_some() { count -= 1 }` loop as a function of its own (the model
   writes it as a local fix inside pull); pull_skip is the unfolding the generated obligations start from *)
From Signalo Require Import Base.Opt Model.Sources.
Section SkipLoop.
Variable p : src -> option (option Z * src).
Fixpoint skip_loop (c : nat) (i : src) : option src :=
  match c with
  | 0%nat => Some i
  | S c' => '(o, i') <- p i ;; match o with Some _ => skip_loop c' i' | None => Some i' end
  end.
End SkipLoop.
Lemma pull_skip old f i c :
  pull old (S f) (Skip i c) = (i1 <- skip_loop (pull old f) c i ;; '(o, i2) <- pull old f i1 ;; Some (o, Skip i2 0)).
Proof. reflexivity. Qed.

(* Why "unroll once, summarise the rest by the model's loop function" is enough.  A Rust `while c { body }` run from state s
   either diverges or stops after finitely many iterations in the state [run fuel s] computes; if a function F (the model's
   loop function read as a state transformer, None = panic) satisfies the one-iteration equations that the generated step
   lemmas establish - F s = F (body s) where the condition holds and the body does not panic, F s = Some s where it does
   not hold - then whenever the loop stops, it stops in the state F predicts (partial correctness by induction on the number
   of iterations; termination of the real loops is the structural recursion of the model functions on the deque / counter). *)
Section LoopPartialCorrectness.
Variable S : Type.
Variable cond : S -> bool.
Variable body : S -> option S.
Variable F : S -> option S.
Hypothesis step_true : forall s s', cond s = true -> body s = Some s' -> F s = F s'.
Hypothesis step_panic : forall s, cond s = true -> body s = None -> F s = None.
Hypothesis step_false : forall s, cond s = false -> F s = Some s.
Fixpoint run (fuel : nat) (s : S) : option (option S) :=      (* None = still running; Some None = panicked *)
  match fuel with
  | O => None
  | Datatypes.S f => if cond s then match body s with Some s' => run f s' | None => Some None end else Some (Some s)
  end.
Theorem loop_partial_correctness : forall fuel s r, run fuel s = Some r -> F s = r.
Proof.
  induction fuel as [|f IH]; intros s r H; [discriminate H|]. cbn [run] in H.
  destruct (cond s) eqn:C.
  - destruct (body s) as [s'|] eqn:B.
    + rewrite (step_true s s' C B). exact (IH s' r H).
    + injection H as <-. exact (step_panic s C B).
  - injection H as <-. exact (step_false s C).
Qed.
End LoopPartialCorrectness.

(* The unit-of-measure wrappers around a source / a sink (macro-generated, one body for all unit systems): on the bare values
   they ARE the wrapped object - one pull, one sink call, the inner finalize - which is what C20's "transparent" means. *)
Definition unit_source (p : src -> option (option Z * src)) (i : src) : option (option Z * src) := p i.
Definition unit_sink {S X : Type} (k : S -> X -> S) (s : S) (x : X) : S := k s x.
Definition unit_finalize {S R : Type} (fin : S -> R) (s : S) : R := fin s.
