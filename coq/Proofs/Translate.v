(* Small facts used by the obligations that translator/bodies.py generates from the Rust sources. *)
From Coq Require Import NArith Lia.
From Signalo Require Import Model.Bounds.
Local Open Scope N_scope.

(* `time += 1` under the guard `time < usize::MAX` cannot overflow: the checked addition the translator emits for every
   usize `+` is the plain sum the model writes in that branch *)
Lemma cadd_lt maxu a : (a <? maxu) = true -> cadd maxu a 1 = Some (a + 1).
Proof. unfold cadd. intros H. apply N.ltb_lt in H. destruct (N.leb_spec (a + 1) maxu); [reflexivity | lia]. Qed.

(* Skip::source: the `while count > 0 && inner.source().is_some() { count -= 1 }` loop as a function of its own (the model
   writes it as a local fix inside pull); pull_skip is the unfolding the generated obligations start from *)
From Signalo Require Import Base.Opt Model.Sources.
Section SkipLoop.
Variable p : src -> option (option Z * src).
Fixpoint skip_loop (c : nat) (i : src) : option src :=
  match c with
  | 0%nat => Some i
  | S c' => '(o, i') <- p i ;; match o with Some _ => skip_loop c' i' | None => Some i' end
  end.
End SkipLoop.
Lemma pull_skip old f i c :
  pull old (S f) (Skip i c) = (i1 <- skip_loop (pull old f) c i ;; '(o, i2) <- pull old f i1 ;; Some (o, Skip i2 0)).
Proof. reflexivity. Qed.
